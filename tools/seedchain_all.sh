#!/bin/sh
# every kept seeded change against the quick check of its property (patches /repo, restores it afterwards)
cd "$(dirname "$0")/.."
for d in seeded/*/; do
  n=$(basename $d); p=${n%%-*}
  tools/seed_eval.sh $n $p quick
done
