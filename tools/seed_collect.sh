#!/bin/sh
# usage: tools/seed_collect.sh <worktree> <seed name>
# Confirms a seeded change in its scratch worktree (patch == working diff, repo tests unchanged with it, demo fails with it and
# passes without it), then copies patch.diff / demo.py / notes.md into /verif/seeded/<name>/ and prints a JSON fragment for meta.json.
wt=$1; name=$2
cd "$wt" || exit 2
git diff -- xdeps > /tmp/sc_$name.diff
if ! cmp -s /tmp/sc_$name.diff seeded/patch.diff; then echo "NOTE: working diff differs from seeded/patch.diff; using seeded/patch.diff"; git checkout -- xdeps; git apply seeded/patch.diff || exit 2; fi
touched_refs=$(grep -c '^+++ b/xdeps/refs.py' seeded/patch.diff)
build() { /venv/bin/python setup.py build_ext --inplace >/dev/null 2>&1; rm -rf build; }
build
tests_with=$(PYTHONPATH=$wt /venv/bin/python -m pytest -q -p no:cacheprovider --timeout=900 tests 2>&1 | tail -1)
PYTHONPATH=$wt /venv/bin/python seeded/demo.py > /tmp/sc_$name.with 2>&1; rc_with=$?
git apply -R seeded/patch.diff || exit 2
[ "$touched_refs" -gt 0 ] && build
PYTHONPATH=$wt /venv/bin/python seeded/demo.py > /tmp/sc_$name.without 2>&1; rc_without=$?
git apply seeded/patch.diff
[ "$touched_refs" -gt 0 ] && build
echo "tests with change: $tests_with"
echo "demo with change: exit=$rc_with: $(head -3 /tmp/sc_$name.with | cut -c1-200 | tr '\n' '|')"
echo "demo without change: exit=$rc_without: $(tail -1 /tmp/sc_$name.without | cut -c1-200)"
mkdir -p /verif/seeded/$name
cp seeded/patch.diff seeded/demo.py seeded/notes.md /verif/seeded/$name/
printf '%s\n' "$tests_with" > /verif/seeded/$name/.tests_with
echo "$rc_with $rc_without" > /verif/seeded/$name/.rcs
