#!/venv/bin/python
"""usage: tools/seed_meta.py <seed name> <one-line change> <needs> : writes seeded/<name>/meta.json from what seed_collect.sh recorded"""
import json, os, sys
name, change, needs = sys.argv[1:4]
d = os.path.join(os.path.dirname(os.path.dirname(os.path.abspath(__file__))), "seeded", name)
tests = open(os.path.join(d, ".tests_with")).read().strip()
rw, rwo = open(os.path.join(d, ".rcs")).read().split()
meta = {"property": name.split("-")[0], "seed": name, "change": change, "needs_to_manifest": needs,
        "origin": "written by a fresh sub-agent that was given only the property text and a scratch git worktree of /repo (nothing from /verif); sixth batch (-f): rare "
                  "triggers (>= 3 operations), told which sites/mechanisms the earlier seeders of its property had used and asked for a different one",
        "confirmed": {"how": "tools/seed_collect.sh (scratch worktree under /tmp/seed, removed afterwards): patch.diff applied; extension rebuilt; repository test suite with "
                             "the change; demo.py with the change; patch reverse-applied (rebuild if refs.py is touched); demo.py without the change",
                      "repo_tests_with_change": tests, "demo_exit_with_change": int(rw), "demo_exit_without_change": int(rwo),
                      "baseline_repo_tests": "1 failed, 76 passed, 2 xfailed (the failure is tests/test_table.py::test_table_from_methods: pandas is not installed)"},
        "detected_by": "see DESIGN.md section 10 (table of seeded changes) and tools/seed_eval_wt.sh"}
json.dump(meta, open(os.path.join(d, "meta.json"), "w"), indent=1)
print("wrote", d)
