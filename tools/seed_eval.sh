#!/bin/sh
# usage: tools/seed_eval.sh <seeded dir name> <property> [tier]   -- applies seeded/<name>/patch.diff to /repo, runs ./check <property>, undoes it
name=$1; prop=$2; tier=${3:-quick}
cd "$(dirname "$0")/.." || exit 2
[ -z "$(git -C /repo status --porcelain --untracked-files=no)" ] || { echo "/repo has uncommitted changes"; exit 2; }
trap 'git -C /repo checkout -- .' EXIT INT TERM
git -C /repo apply "$PWD/seeded/$name/patch.diff" || { echo "patch does not apply"; exit 2; }
log=/tmp/seed_${name}_${prop}.log
./check $prop --tier $tier > $log 2>&1
rc=$?
git -C /repo checkout -- .
echo "seed=$name property=$prop tier=$tier exit=$rc"
grep -m3 -A1 "^VIOLATION" $log | cut -c1-400
tail -1 $log | cut -c1-300
exit 0
