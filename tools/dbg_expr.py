import sys, json, glob, collections, re, os
sys.argv=['x']
from harness import expr_engine as ee, props
os.environ['VERIF_TIER']='quick'
rc = ee.run("DBG","model_checking","debug", props._expr_plans(True), tags=["C04","C05","C06","C11","C12","C20"], modes=("compiled",), hashseeds=(0,))
c=collections.Counter(); ex={}
for f in glob.glob('/verif/replays/DBG-*.json'):
    r=json.load(open(f)); s=r['summary'].split('] ',1)[1]
    k=str(r['tags'])+re.sub(r"[-\d.]+","N",s)[:50]
    c[k]+=1; ex.setdefault(k,(s[:300], r['path']))
for k,n in c.most_common(40):
    print(n,k[:12],ex[k][0]); print('      ',json.dumps(ex[k][1])[:300])
for f in glob.glob('/verif/replays/DBG-*.json'): os.remove(f)
os.remove('/verif/evidence/DBG.json')
