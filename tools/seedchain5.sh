#!/bin/sh
cd "$(dirname "$0")/.."
for pair in C01-e:C01 C02-e:C02 C03-e:C03 C04-e:C04 C05-e:C05 C06-e:C06 C07-e:C07 C08-e:C08 C09-e:C09 C10-e:C10 C11-e:C11 C12-e:C12 C13-e:C13 C14-e:C14 C15-e:C15 C17-e:C17 C18-e:C18 C19-e:C19 C20-e:C20; do
  n=${pair%%:*}; p=${pair##*:}
  tools/seed_eval.sh $n $p quick
done
