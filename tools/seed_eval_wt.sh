#!/bin/sh
# usage: tools/seed_eval_wt.sh <seeded dir name> <property> [tier]
# Like seed_eval.sh, but /repo is not touched: the patch is applied to a scratch worktree of /repo's HEAD (VERIF_REPO), evidence and replays
# go to a scratch directory, so several seeded changes can be evaluated at once and the committed evidence is not overwritten.
name=$1; prop=$2; tier=${3:-quick}
cd "$(dirname "$0")/.." || exit 2
wt=/tmp/seedeval/$name-$prop
rm -rf $wt; git -C /repo worktree prune; mkdir -p /tmp/seedeval
git -C /repo worktree add -q --detach $wt HEAD || exit 2
trap 'git -C /repo worktree remove --force $wt 2>/dev/null; rm -rf $wt.ev' EXIT INT TERM
git -C $wt apply "$PWD/seeded/$name/patch.diff" || { echo "seed=$name patch does not apply"; exit 2; }
mkdir -p $wt.ev/evidence $wt.ev/replays
log=/tmp/seed_${name}_${prop}.log
VERIF_REPO=$wt VERIF_EVID=$wt.ev/evidence VERIF_REPLAYS=$wt.ev/replays VERIF_SEED=${VERIF_SEED:-0} ./check $prop --tier $tier > $log 2>&1
rc=$?
echo "seed=$name property=$prop tier=$tier exit=$rc"
grep -m3 -A1 "^VIOLATION" $log | cut -c1-400
tail -1 $log | cut -c1-300
exit 0
