#!/bin/sh
# usage: tools/thorough_subset.sh <ids...>   -- the thorough command of the given checks, summary lines only
cd "$(dirname "$0")/.." || exit 2
for p in "$@"; do
  ./check $p --tier thorough > /tmp/th_$p.log 2>&1
  echo "$p exit=$? $(tail -1 /tmp/th_$p.log | cut -c1-170)"
  grep -m2 -A1 "^VIOLATION\|MACHINERY" /tmp/th_$p.log | cut -c1-300
done
