#!/bin/sh
cd "$(dirname "$0")/.."
for pair in C01-c:C01 C02-c:C02 C03-c:C03 C04-c:C04 C05-c:C05 C06-c:C06 C07-c:C07 C08-c:C08 C09-c:C09 C10-c:C10 C11-c:C11 C12-c:C12 C13-c:C13 C14-c:C14 C15-c:C15 C17-c:C17 C18-c:C18 C19-c:C19 C20-c:C20; do
  n=${pair%%:*}; p=${pair##*:}
  tools/seed_eval.sh $n $p quick
done
