#!/bin/sh
cd "$(dirname "$0")/.."
for pair in C01-d:C01 C02-d:C02 C03-d:C03 C04-d:C04 C05-d:C05 C06-d:C06 C07-d:C07 C08-d:C08 C09-d:C09 C10-d:C10 C11-d:C11 C12-d:C12 C13-d:C13 C14-d:C14 C15-d:C15 C17-d:C17 C18-d:C18 C19-d:C19 C20-d:C20; do
  n=${pair%%:*}; p=${pair##*:}
  tools/seed_eval.sh $n $p quick
done
