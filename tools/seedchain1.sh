#!/bin/sh
for pair in C01-a:C01 C02-a:C02 C03-a:C03 C17-a:C17 C18-a:C18 C07-a:C07; do
  n=${pair%%:*}; p=${pair##*:}
  tools/seed_eval.sh $n $p quick
done
