#!/bin/sh
# usage: tools/seed_confirm.sh <worktree> : confirms (in the scratch worktree) tests pass with the change, demo fails with it and passes without
wt=$1
cd $wt || exit 2
ls xdeps/*.so >/dev/null 2>&1 || /venv/bin/python setup.py build_ext --inplace >/dev/null 2>&1
echo "== tests with change"; PYTHONPATH=$wt /venv/bin/python -m pytest -q -p no:cacheprovider --timeout=900 tests 2>&1 | tail -1
echo "== demo with change"; PYTHONPATH=$wt /venv/bin/python seeded/demo.py 2>&1 | tail -2; echo "exit=$?"
git stash -q
if git diff --quiet HEAD -- xdeps/refs.py; then :; fi
echo "== demo without change"; PYTHONPATH=$wt /venv/bin/python seeded/demo.py 2>&1 | tail -1; 
git stash pop -q
