#!/bin/sh
# Rebuilds /repo's git-ignored refs extension in place from the working tree (it goes stale when refs.py is edited)
# and runs the repository's pinned test suite with the verification guard off.
cd /repo || exit 2
unset XDEPS_VERIF_TRACE
/venv/bin/python setup.py build_ext --inplace >/tmp/repo_build.log 2>&1 || { tail -20 /tmp/repo_build.log; exit 2; }
rm -rf build
/venv/bin/python -m pytest -ra -q -p no:cacheprovider --timeout=900 --continue-on-collection-errors 2>&1 | tail -15
