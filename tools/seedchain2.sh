#!/bin/sh
cd "$(dirname "$0")/.."
for pair in C04-b:C04 C05-b:C05 C06-b:C06 C08-b:C08 C09-b:C09 C10-b:C10 C11-b:C11 C12-b:C12 C13-b:C13 C14-b:C14 C15-b:C15 C19-b:C19 C20-b:C20; do
  n=${pair%%:*}; p=${pair##*:}
  tools/seed_eval.sh $n $p quick
done
