#!/bin/sh
# usage: tools/allquick.sh <seed> [tier]  -- every registered check once, summary lines only
seed=${1:-0}; tier=${2:-quick}
cd "$(dirname "$0")/.." || exit 2
for p in C01 C02 C03 C04 C05 C06 C07 C08 C09 C10 C11 C12 C13 C14 C15 C17 C18 C19 C20; do
  VERIF_SEED=$seed ./check $p --tier $tier > /tmp/aq_$p.log 2>&1
  echo "$p exit=$? $(tail -1 /tmp/aq_$p.log | cut -c1-160)"
  grep -m2 -A1 "^VIOLATION\|MACHINERY" /tmp/aq_$p.log | cut -c1-300
done
