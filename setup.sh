#!/bin/sh
# Offline setup: nothing to fetch.  Pre-builds the cythonized refs extension of /repo's working tree into the
# (content-keyed) cache so that the first check does not pay for it, and syntax-checks the specifications.
cd "$(dirname "$0")" || exit 1
/venv/bin/python -m harness.build compiled >/dev/null || exit 1
rm -rf /tmp/xdv-compiled-* 2>/dev/null
for m in spec/Manager.tla; do
  ( cd spec && java -cp /opt/veriftools/tla/tla2tools.jar:/opt/veriftools/tla/CommunityModules-deps.jar tla2sany.SANY "$(basename $m)" >/dev/null ) || { echo "SANY failed on $m"; exit 1; }
done
echo setup ok
