"""Direction B for the manager: harness-side recorder (no source patch) + drivers.

install() wraps, on the classes imported from the scratch build, Manager.set_value / register / unregister and the run methods of
the three task classes.  Every Manager instance gets its own Recorder; a Recorder interns references as location numbers (by access
path, never by the refs' own ==/hash), keeps the owner table, a task table, and the event list ManagerTrace.tla consumes.
Nested set_value calls (a FunctionTask action assigning through a ref) are folded into the enclosing update (depth counter).
"""
import collections, json, os, random

_installed = {}
RECORDERS = []          # all recorders created since install(), in creation order
BY_MANAGER = {}         # id(manager) -> its recorder (the recorder keeps the manager alive, so the id is not reused)


def path_of(r, xr):
    steps = []
    o = r
    while isinstance(o, (xr.ItemRef, xr.AttrRef)):
        k = o._key
        if isinstance(k, xr.BaseRef):
            k = ("<computed>", repr(k))
        steps.append(("attr" if isinstance(o, xr.AttrRef) else "item", type(k).__name__, repr(k)))
        o = o._owner
    if isinstance(o, xr.Ref):
        return (("label", "str", repr(o._key)),) + tuple(reversed(steps))
    return (("other", type(o).__name__, repr(o)),) + tuple(reversed(steps))


def leaves(e, xr, out):
    """references whose VALUE an expression reads (maximal references; computed keys: the owner and the key's leaves)"""
    if isinstance(e, xr.MutableRef):
        if isinstance(e, xr.Ref):
            return
        if isinstance(e._key, xr.BaseRef):
            out.append(e._owner)
            leaves(e._key, xr, out)
        else:
            out.append(e)
        return
    if not isinstance(e, xr.BaseRef):
        return
    # by class, never by hasattr: every attribute name "exists" on a reference (BaseRef.__getattr__ builds an AttrRef)
    if isinstance(e, xr.BinOpExpr):
        subs = [e._lhs, e._rhs]
    elif isinstance(e, (xr.UnaryOpExpr, xr.LiteralExpr)):
        subs = [e._arg]
    elif isinstance(e, xr.BuiltinRef):
        subs = [e._arg] + list(e._params)
    elif isinstance(e, xr.CallRef):
        subs = [e._func] + list(e._args) + [x for _, x in e._kwargs]
    else:
        subs = []
    for x in subs:
        leaves(x, xr, out)


class Recorder:
    def __init__(self, manager, xt, xr):
        self.m, self.xt, self.xr = manager, xt, xr
        self.loc, self.par = {}, []
        self.task_ids, self.tasks = {}, []
        self.events = []
        self.depth = 0
        self.idx_every = 0
        self.nsets = 0
        self.notes = collections.Counter()

    def L(self, r):
        p = path_of(r, self.xr)
        i = self.loc.get(p)
        if i is None:
            parent = 0
            if len(p) > 1 and not isinstance(r, self.xr.Ref):
                parent = self.L(r._owner)
                if isinstance(r._owner, self.xr.Ref):
                    parent = 0                      # the top-level container reference is no dependency (Ref._get_dependencies)
            self.par.append(parent)
            i = len(self.par)
            self.loc[p] = i
        return i

    def T(self, task):
        key = path_of(task.taskid, self.xr) if isinstance(task.taskid, self.xr.BaseRef) else ("plain", repr(task.taskid))
        xt, xr = self.xt, self.xr
        deps = sorted({self.L(d) for d in task.dependencies})
        tg = sorted({self.L(d) for d in task.targets})
        if isinstance(task, xt.ExprTask):
            lv = []
            leaves(task.expr, xr, lv)
            reads = sorted({self.L(x) for x in lv})
            writes = [self.L(task.taskid)]
        else:
            reads, writes = deps, tg
        entry = {"deps": deps, "reads": reads, "targets": tg, "writes": writes}
        # a re-registration with other dependencies is a NEW task as far as the trace is concerned
        i = self.task_ids.get(key)
        if i is None or self.tasks[i - 1] != entry:
            self.tasks.append(entry)
            i = len(self.tasks)
            self.task_ids[key] = i
        return i

    def stale(self):
        out = []
        xt = self.xt
        for tid, task in list(self.m.tasks.items()):
            if isinstance(task, xt.ExprTask):
                try:
                    want = task.expr._get_value()
                    have = tid._get_value()
                except Exception:
                    continue
                try:
                    same = bool((want == have) or (want != want and have != have))
                except Exception:
                    try:
                        import numpy as _np
                        same = bool(_np.all(_np.asarray(want == have)))
                    except Exception:
                        same = True
                if not same or type(want) is not type(have):
                    out.append(self.task_ids.get(path_of(tid, self.xr), 0))
        return out

    def idx_event(self):
        m, xr = self.m, self.xr

        def tk(x):
            key = path_of(x, xr) if isinstance(x, xr.BaseRef) else ("plain", repr(x))
            return self.task_ids.get(key, 0)
        ev = {"ev": "Idx"}
        for name, kf, vf in (("rdeps", self.L, self.L), ("deptasks", self.L, tk), ("tartasks", self.L, tk), ("rtasks", tk, tk)):
            ev[name] = sorted([kf(k), vf(v)] for k, rc in getattr(m, name).items() for v, c in rc.items() if c > 0)
        try:
            import io, contextlib
            with contextlib.redirect_stdout(io.StringIO()):
                m.verify()
            ev["verify_ok"] = True
        except Exception:
            ev["verify_ok"] = False
        self.events.append(ev)

    def trace(self):
        return {"par": self.par, "tasks": self.tasks, "events": self.events}


def install(xdeps_mod):
    """wrap the classes of the given (scratch) xdeps module; idempotent per module"""
    import xdeps.tasks as xt, xdeps.refs as xr
    if _installed.get(id(xt)):
        return
    _installed[id(xt)] = True
    M = xt.Manager

    def rec(self):
        r = BY_MANAGER.get(id(self))           # kept outside the manager: a recorder in its __dict__ would travel with pickle / copy
        if r is None or r.m is not self:
            r = Recorder(self, xt, xr)
            BY_MANAGER[id(self)] = r
            RECORDERS.append(r)
            for task in list(getattr(self, "tasks", {}).values()):       # a manager born with tasks (unpickled, copied, cloned): they count as registered
                r.events.append({"ev": "Reg", "t": r.T(task)})
        return r
    o_set, o_reg, o_unreg = M.set_value, M.register, M.unregister

    def set_value(self, ref, value):
        r = rec(self)
        top = r.depth == 0
        if top:
            r.events.append({"ev": "Begin", "l": r.L(ref)})
        r.depth += 1
        out = "ok"
        try:
            return o_set(self, ref, value)
        except BaseException as ex:
            out = "Fault" if type(ex).__name__ == "Fault" else type(ex).__name__
            raise
        finally:
            r.depth -= 1
            if top:
                r.nsets += 1
                r.events.append({"ev": "End", "out": out, "stale": r.stale() if out == "ok" and len(self.tasks) <= r.stale_cap else []})
                if r.idx_every and len(self.tasks) <= 200 and r.nsets % r.idx_every == 0 and out == "ok":
                    r.idx_event()
    Recorder.stale_cap = 100000

    def register(self, task):
        r = rec(self)
        res = o_reg(self, task)
        r.events.append({"ev": "Reg", "t": r.T(task)})
        return res

    def unregister(self, taskid):
        r = rec(self)
        task = self.tasks.get(taskid)
        t = r.T(task) if task is not None else 0
        res = o_unreg(self, taskid)
        r.events.append({"ev": "Unreg", "t": t})
        return res
    M.set_value, M.register, M.unregister = set_value, register, unregister
    for cls in (xt.ExprTask, xt.FunctionTask, xt.LinearKnob):
        orig = cls.run

        def run(self, _orig=orig):
            mgr = None
            tid = self.taskid
            if isinstance(tid, xr.BaseRef):
                mgr = tid._manager
            else:
                for d in list(self.targets) + list(self.dependencies):
                    mgr = getattr(d, "_manager", None)
                    if mgr is not None:
                        break
            r = BY_MANAGER.get(id(mgr)) if mgr is not None else None
            if r is not None and r.m is mgr:
                r.events.append({"ev": "Run", "t": r.T(self)})
            return _orig(self)
        cls.run = run


# ---------------------------------------------------------------------------------------------------------
# drivers

class Box:
    pass


def driver_random(seed, nloc=30, nsteps=60, idx_every=5):
    """random history over nested dict / list / attribute containers; acyclic data flow by a hidden rank on the locations, definitions in
    arbitrary time order (consumer before producer), redefinitions, plain values over defined locations, in-place operators, unregister"""
    import xdeps
    rnd = random.Random(seed)
    m = xdeps.Manager()
    root = {"n": {}, "l": [0.0] * 6, "o": Box()}
    s = m.ref(root, "s")
    locs = []
    for i in range(nloc):
        kind = rnd.choice(["flat", "flat", "dict", "list", "attr"])
        if kind == "flat":
            root[f"v{i}"] = float(i)
            locs.append(("flat", f"v{i}"))
        elif kind == "dict":
            root["n"][f"d{i}"] = float(i)
            locs.append(("dict", f"d{i}"))
        elif kind == "list" and sum(1 for x in locs if x[0] == "list") < 6:
            locs.append(("list", sum(1 for x in locs if x[0] == "list")))
        else:
            setattr(root["o"], f"a{i}", float(i))
            locs.append(("attr", f"a{i}"))
    rank = list(range(len(locs)))
    rnd.shuffle(rank)

    def ref(j):
        k, key = locs[j]
        return {"flat": lambda: s[key], "dict": lambda: s["n"][key], "list": lambda: s["l"][key], "attr": lambda: getattr(s["o"], key)}[k]()

    def assign(j, v):
        k, key = locs[j]
        if k == "flat":
            s[key] = v
        elif k == "dict":
            s["n"][key] = v
        elif k == "list":
            s["l"][key] = v
        else:
            setattr(s["o"], key, v)
    # the first wrapped call creates the recorder
    for step in range(nsteps):
        j = rnd.randrange(len(locs))
        lower = [i for i in range(len(locs)) if rank[i] < rank[j]]
        act = rnd.random()
        if act < 0.45 and lower:
            ops = rnd.sample(lower, min(len(lower), rnd.choice([1, 2, 2, 3])))
            e = ref(ops[0])
            for o in ops[1:]:
                e = rnd.choice([lambda a, b: a + b, lambda a, b: a * b, lambda a, b: a - 2 * b, lambda a, b: abs(a) + b])(e, ref(o))
            if rnd.random() < 0.3:
                e = e * 2 + 1
            assign(j, e)
        elif act < 0.8:
            assign(j, round(rnd.uniform(-3, 3), 2))
        elif act < 0.9:
            r = ref(j)
            k, key = locs[j]
            tgt = {"flat": s, "dict": s["n"], "list": s["l"], "attr": s["o"]}[k]
            if k == "attr":
                cur = getattr(tgt, key)
                cur += 1.5
                setattr(tgt, key, cur)
            else:
                cur = tgt[key]
                cur *= 2
                tgt[key] = cur
        else:
            r = ref(j)
            if r in m.tasks:
                m.unregister(r)
        rec_ = BY_MANAGER.get(id(m))
        if rec_ is not None:
            rec_.idx_every = idx_every
    return BY_MANAGER.get(id(m))


def driver_chain(n, reverse=False):
    """x0 -> x1 -> ... -> xn, defined producer-first or consumer-first, then x0 assigned twice"""
    import xdeps
    m = xdeps.Manager()
    d = {f"x{i}": 0.0 for i in range(n + 1)}
    s = m.ref(d, "s")
    order = range(n, 0, -1) if reverse else range(1, n + 1)
    for i in order:
        s[f"x{i}"] = s[f"x{i - 1}"] + 1
    rec_ = BY_MANAGER[id(m)]
    rec_.stale_cap = 100000
    s["x0"] = 5.0
    s["x0"] = 7.0
    rec_.notes["last"] = d[f"x{n}"]
    return rec_


def driver_fan(w):
    import xdeps
    m = xdeps.Manager()
    d = {"a": 1.0, "b": 2.0}
    d.update({f"y{i}": 0.0 for i in range(w)})
    s = m.ref(d, "s")
    for i in range(w):
        s[f"y{i}"] = s["a"] * i + s["b"]
    s["total"] = sum((s[f"y{i}"] for i in range(1, min(w, 40))), s["y0"])
    s["a"] = 3.0
    s["b"] = -1.0
    return BY_MANAGER[id(m)]


def worker(job, shard, nshards):
    import xdeps
    install(xdeps)
    traces, stats = [], collections.Counter()
    items = job["items"]
    for i in range(shard, len(items), nshards):
        kind, arg = items[i]
        del RECORDERS[:]
        out = "ok"
        try:
            if kind == "random":
                driver_random(arg, **job.get("random_kw", {}))
            elif kind == "chain":
                driver_chain(arg)
            elif kind == "chain_rev":
                driver_chain(arg, reverse=True)
            elif kind == "fan":
                driver_fan(arg)
        except RecursionError:
            out = "RecursionError"
        except Exception as ex:
            out = type(ex).__name__ + ": " + str(ex)[:100]
        for r in RECORDERS:
            if not r.events:
                continue
            tr = r.trace()
            tr["item"] = [kind, arg]
            tr["driver_outcome"] = out
            traces.append(tr)
            stats["traces"] += 1
            stats["events"] += len(tr["events"])
            stats["updates"] += sum(1 for e in tr["events"] if e["ev"] == "End")
            stats["runs"] += sum(1 for e in tr["events"] if e["ev"] == "Run")
    return {"fails": [], "stats": dict(stats), "samples": [], "traces": traces}
