"""Direction A for Paths.tla (C06): references are rebuilt from their abstract path at every use, never cached."""
import collections

# binding tables: abstract key -> concrete Python key.  Several concretisations; each puts the hostile spellings on different abstract keys.
ITEM_TABLES = [
    {"k1": "a", "k2": "a']['b", "k3": "s['a']", "k4": "a.b", "k5": "é", "k6": 7, "k7": -7, "k8": 1.5, "k9": ("a", 1)},
    {"k1": "s", "k2": "t['b']", "k3": 'q"uote', "k4": "b", "k5": ".a", "k6": 0, "k7": -1, "k8": -2.5, "k9": (1, ("b", 2))},
    {"k1": "1", "k2": 1, "k3": "-7", "k4": -7, "k5": "1.5", "k6": 15, "k7": "('a', 1)", "k8": 0.5, "k9": ("a", "1")},
    {"k1": "", "k2": " ", "k3": "a'", "k4": "a\\", "k5": "s.a", "k6": 2 ** 70, "k7": -(2 ** 70), "k8": 1e-30, "k9": ()},
    # a key next to the one-element tuple holding it (and the text of both)
    {"k1": 1, "k2": (1,), "k3": "1", "k4": ((1,),), "k5": (1, 1), "k6": "(1,)", "k7": -1, "k8": (-1,), "k9": ("1",)},
    {"k1": "a", "k2": ("a",), "k3": "('a',)", "k4": 2.5, "k5": (2.5,), "k6": None, "k7": (None,), "k8": "None", "k9": ((),)},
    # different keys with the SAME Python hash (hash(-1) == hash(-2); 0.5 and 2**60; k and k + 2**61 - 1), as first and as inner steps
    {"k1": -1, "k2": -2, "k3": 0.5, "k4": 2 ** 60, "k5": 5, "k6": 5 + 2 ** 61 - 1, "k7": "-1", "k8": -1.5, "k9": (-1, -2)},
]
ATTR_TABLES = [
    {"a1": "a", "a2": "b", "a3": "_x1"},
    {"a1": "s", "a2": "t", "a3": "a_b"},
    {"a1": "k", "a2": "a1", "a3": "é"},
    {"a1": "x", "a2": "xx", "a3": "X"},
    {"a1": "a", "a2": "b", "a3": "_x1"},
    {"a1": "s", "a2": "t", "a3": "a_b"},
    {"a1": "k", "a2": "x", "a3": "a__b"},
]


class Box:
    pass


def mk_managers():
    import xdeps
    ms = []
    for _ in range(2):
        m = xdeps.Manager()
        ms.append({"m": m, "s": m.ref(Box(), "s"), "t": m.ref(Box(), "t")})
    return ms


def build(mgr, path, tbl):
    r = mgr[path["label"]]
    for kind, key in path["steps"]:
        r = getattr(r, ATTR_TABLES[tbl][key]) if kind == "attr" else r[ITEM_TABLES[tbl][key]]
    return r


def worker(job, shard, nshards):
    g = job["graph"]
    fails, stats, samples = [], collections.Counter(), []
    ms = mk_managers()
    ntab = len(ITEM_TABLES)
    for ei in range(shard, len(g.edges), nshards):
        s, lab, dst, extra = g.edges[ei]
        root, path = g.path_to(s)
        tbl = ei % ntab
        steps = [g.edges[i][1] for i in path] + [lab]

        def fail(summary, detail=None):
            stats["fail"] += 1
            if len(fails) < 100:
                fails.append({"tags": ["C06"], "summary": summary, "root": [], "path": steps, "detail": dict(detail or {}, table=tbl,
                              items={k: repr(v) for k, v in ITEM_TABLES[tbl].items()})})
        stats["edges"] += 1
        if lab["a"] == "Eq":
            for other in (0, 1):                     # q built by the same manager / by a second manager with the same labels
                p = build(ms[0], lab["p"], tbl)
                q = build(ms[other], lab["q"], tbl)
                want = lab["same"]
                if not want:
                    stats["nontrivial"] += 1
                got_eq, got_ne = (p == q), (p != q)
                if got_eq != want or got_ne == want:
                    fail(f"{p!r} == {q!r} is {got_eq} (!= is {got_ne}); the paths are {'the same' if want else 'different'}")
                    break
                if want and hash(p) != hash(q):
                    fail(f"{p!r} and an independently built {q!r} denote the same path but hash differently")
                    break
                if ({p: 1}.get(q) == 1) != want or (q in {p}) != want:
                    fail(f"{{{p!r}: 1}} {'does not find' if want else 'finds'} {q!r}")
                    break
            continue
        # dictionary behaviour: replay the path on a real dict keyed by freshly built refs
        d = {}
        ok = True
        for k, plab in enumerate(steps):
            who = ms[k % 2]
            a = plab["a"]
            if a == "Put":
                d[build(who, plab["p"], tbl)] = plab["v"]
            elif a == "Del":
                try:
                    del d[build(who, plab["q"], tbl)]
                except KeyError:
                    fail(f"del d[{build(who, plab['q'], tbl)!r}] raised KeyError although an entry for that path was stored")
                    ok = False
                    break
            elif a == "Get" and plab is lab:
                got = d.get(build(who, plab["q"], tbl), -1)
                if plab["r"] != -1:
                    stats["nontrivial"] += 1
                if got != plab["r"]:
                    fail(f"d.get({build(who, plab['q'], tbl)!r}) is {got}, the dictionary keyed by paths holds {plab['r']}")
                    ok = False
                    break
        if ok:
            want = sorted((repr(build(ms[0], p, tbl)), v) for p, v in g.states[dst])
            got = sorted((repr(k), v) for k, v in d.items())
            if want != got:
                fail(f"dictionary keyed by references holds {got}, keyed by paths {want}")
            elif len(samples) < 2 and len(steps) >= 3:
                samples.append({"steps": steps, "entries": got, "key_table": tbl})
    return {"fails": fails, "stats": dict(stats), "samples": samples}
