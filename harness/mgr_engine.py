"""Engine for the properties decided on Manager.tla (C01, C02, C03, C17, C18; later C13, C20):
   TLC explores a bounded instance (exhaustive and/or -simulate), emits every generated transition, and the
   transitions are replayed on the real Manager (mgr_replay).  One call serves one property: only failures
   tagged with that property count, the others are somebody else's check."""
import os, concurrent.futures as cf, time, json, collections
from . import tlc, build, mgr_replay as mr
from .common import SPEC, Machinery, Verdict, seed, tier as get_tier

GEN = os.path.join(SPEC, "gen")
VARIANTS = {"core": ("FALSE", "FALSE", "FALSE"), "extras": ("FALSE", "TRUE", "FALSE"), "faults": ("TRUE", "FALSE", "FALSE"),
            "all": ("TRUE", "TRUE", "FALSE"), "xfer": ("FALSE", "FALSE", "TRUE"), "xfer_extras": ("FALSE", "TRUE", "TRUE"),
            "xfer_all": ("TRUE", "TRUE", "TRUE")}


def mkcfg(universe, variant, depth, emitidx=True, episodes=False, walks=False):
    os.makedirs(GEN, exist_ok=True)
    faults, extras, transfers = VARIANTS[variant]
    txt = open(os.path.join(SPEC, "Manager.cfg.tmpl")).read()
    txt = (txt.replace("@FAULTS@", faults).replace("@EXTRAS@", extras).replace("@TRANSFERS@", transfers).replace("@DEPTH@", str(depth))
           .replace("@EMITIDX@", "TRUE" if emitidx else "FALSE").replace("@EPISODES@", "TRUE" if episodes else "FALSE")
           .replace("@EMIT@", "" if walks else "ACTION_CONSTRAINT Emit"))
    p = os.path.join(GEN, f"MC_{universe}_{variant}_{depth}_{int(emitidx)}{int(episodes)}{int(bool(walks))}.cfg")
    with open(p, "w") as f:
        f.write(txt)
    return p


def explore_walks(universe, variant, depth, walks, sd, emitidx, procs=10):
    """`walks` simulated behaviours of `depth` steps (TLC -simulate file=...: one file per behaviour holding only the states the walk visits,
    each with the label `last` of the step that led to it), from `procs` TLC processes with different seeds"""
    import shutil, tempfile
    cfg = mkcfg(universe, variant, depth, emitidx, False, walks=True)
    d = tempfile.mkdtemp(prefix="xdv-walks-")
    per = -(-walks // procs)
    try:
        def one(k):
            return tlc.run(f"MC_{universe}.tla", cfg, workers=1, simulate=per, depth=depth + 1, seed=sd * 1000 + k, timeout=3000,
                           simulate_file=os.path.join(d, f"w{k}"), heap="2g")
        with cf.ThreadPoolExecutor(max_workers=procs) as ex:
            rs = list(ex.map(one, range(procs)))
        for r in rs:
            if r.violation:
                raise Machinery(f"TLC reports a violation on the model itself ({universe}/{variant}/{depth} walks):\n{r.violation[:3000]}")
        g = mr.parse_walk_files(d, rs[0].out)
    finally:
        shutil.rmtree(d, ignore_errors=True)
    r = rs[0]
    r.states = sum(x.states for x in rs)
    r.distinct = len(g.states)
    r.wall = max(x.wall for x in rs)
    return g, r


def explore(universe, variant, depth, simulate=None, workers=2, emitidx=True, sd=0, episodes=False, walks=0):
    """walks=N: TLC -simulate with N behaviours of `depth` steps, emitted as walks (one line per visited state) and replayed along themselves"""
    if walks:
        return explore_walks(universe, variant, depth, walks, sd, emitidx)
    cfg = mkcfg(universe, variant, depth, emitidx, episodes)
    out = os.path.join(GEN, f"MC_{universe}_{variant}_{depth}_{'sim%d' % simulate if simulate else 'bfs'}_{os.getpid()}.out")
    try:
        # the in-memory state queue: TLC 1.8's disk queue fails to serialise some lazily built set values of this model
        # ("StatePoolWriter.run: ValueVec.size() ... elems is null") once the queue spills to disk; the graphs explored here fit in memory
        r = tlc.run(f"MC_{universe}.tla", cfg, workers=workers, simulate=simulate, heap="6g",
                    depth=(depth + 1 if simulate else None), seed=sd, to_file=out, timeout=3000,
                    jvm=("-Dtlc2.tool.queue.IStateQueue=MemStateQueue",))
        if r.violation:
            raise Machinery(f"TLC reports a violation on the model itself ({universe}/{variant}/{depth}); the specification must hold "
                            f"by construction, so this is a machinery failure:\n{r.violation[:3000]}")
        g = mr.parse_tlc_output(out)
    finally:
        if os.path.exists(out):
            os.remove(out)
    return g, r


def run(prop, level, rule, plans, tags=None, keys=("plain",), modes=("compiled",), hashseeds=(0,), nshards=8, queries=True,
        extra_assume=(), episodes=0, cross_config=False, verdict=None, finish=True, loops=(), nloops=0):
    """plans: list of dict(universe, variant, depth, simulate=None|N).  Returns exit code."""
    v = verdict or Verdict(prop, level, get_tier(), rule)
    tags = tags or [prop]
    scratch = {m: build.build(m) for m in modes}
    tot_states = tot_trans = 0
    # explore the plans with a small look-ahead and hand each graph to the replay as soon as it exists: graphs of the thorough tier
    # are large, and every replay worker loads the graph it works on
    order = sorted(range(len(plans)), key=lambda i: json.dumps(plans[i], sort_keys=True))
    ex = cf.ThreadPoolExecutor(max_workers=2)
    futs = {}

    def submit(i):
        p = plans[i]
        futs[i] = ex.submit(explore, p["universe"], p["variant"], p["depth"], p.get("simulate"), 6, p.get("emitidx", True),
                            seed() + i, bool(p.get("episodes", episodes)), p.get("walks", 0))

    def graphs_iter():
        for k in range(min(2, len(order))):
            submit(order[k])
        for k, i in enumerate(order):
            g, r = futs.pop(i).result()
            if k + 2 < len(order):
                submit(order[k + 2])
            yield plans[i], g, r
        ex.shutdown()
    stats = collections.Counter()
    percfg = []
    for plan, g, r in graphs_iter():
        tot_states += len(g.states)
        tot_trans += len(g.edges)
        if plan["universe"] == "U7" and plan["variant"] in ("extras", "all", "xfer_all") and plan["depth"] >= 3 and not plan.get("simulate") and not plan.get("walks"):
            # vacuity guard: the universe exists for nested updates; a graph without a single update that contains an inner one means the action can no
            # longer happen in the model (a guard that became too strong), which no invariant would notice
            nested = sum(1 for e_ in g.edges if e_[1].get("flat"))
            nfault = sum(1 for e_ in g.edges if e_[1].get("exc") == "Fault" and "N1" in e_[1].get("ran", []))
            stats["updates_with_inner_update"] += nested
            stats["faults_after_inner_update_started"] += nfault
            if not nested or (plan["variant"] != "extras" and plan["depth"] >= 4 and not nfault):
                raise Machinery(f"Manager.tla / MC_U7: no nested update in the explored graph ({plan}): the nest task can no longer be registered or triggered")
        for kk in keys:
            dig = {} if cross_config else None
            for mode in modes:
                fails, st, samples = mr.run_replay(g, plan["universe"], kk, scratch[mode], mode, list(hashseeds), nshards, queries=queries,
                                                   fan_keep=plan.get("fan_keep", 1.0), seed=seed(),
                                                   episodes=plan.get("episodes", episodes), digest=dig, loops=loops, nloops=plan.get("nloops", nloops),
                                                   allpaths=plan.get("allpaths", 0), allpaths_cap=plan.get("allpaths_cap", 60))
                stats.update(st)
                for s in samples[:1]:
                    v.sample({"universe": plan["universe"], "variant": plan["variant"], **s})
                for f in fails:
                    if not (set(f["tags"]) & set(tags)):
                        stats["other_property_fail"] += 1
                        continue
                    v.violation(f"[{plan['universe']}/{plan['variant']} {mode} keys={kk} hashseed={f['hashseed']}] {f['summary']}",
                                {"engine": "mgr_replay", "plan": plan, "mode": mode, "keys": kk, "hashseed": f["hashseed"],
                                 "path": f["path"], "detail": f["detail"], "tags": f["tags"]},
                                known_key=f["known"])
            if cross_config:
                trs = dig.pop("transcripts", {})
                cfgs = sorted(dig)
                ref = cfgs[0]
                stats["cross_config_edges"] += len(dig[ref])
                stats["cross_config_configurations"] = len(cfgs)
                for c in cfgs[1:]:
                    keys_ = set(dig[ref]) | set(dig[c])
                    for ei in sorted(keys_):
                        if dig[ref].get(ei) != dig[c].get(ei):
                            lab = g.edges[ei][1]
                            cyc = bool(lab.get("cyc"))      # only the step itself: earlier structural-cycle steps were resynchronised
                            v.violation(f"[{plan['universe']}/{plan['variant']} keys={kk}] transcript (outcome, contents, dump()) of {lab.get('a')}({lab.get('l', lab.get('kind', ''))}) "
                                        f"differs between configuration {ref} and {c}",
                                        {"engine": "mgr_replay", "plan": plan, "keys": kk, "configs": [list(ref), list(c)],
                                         "path": [g.edges[i][1] for i in mr.path_to(g, g.edges[ei][0])] + [lab],
                                         "transcripts": [trs.get(ref, {}).get(ei), trs.get(c, {}).get(ei)], "tags": ["C20"]},
                                        known_key="struct-cycle-order" if cyc else None)
        percfg.append({**plan, "tlc_generated": r.states, "tlc_distinct": r.distinct, "emitted_states": len(g.states),
                       "emitted_transitions": len(g.edges), "tlc_wall_s": round(r.wall, 1)})
    v.add(stats["edges"])
    if verdict is not None and "configurations" in v.cov:        # a further stage on the same verdict: accumulate
        v.cov["states"] += tot_states
        v.cov["transitions"] += tot_trans
        v.cov["traces_validated_against_impl"] += stats["edges"]
        v.cov["distinct_nontrivial"] += stats["nontrivial"]
        v.cov["configurations"] += [dict(c, keys=list(keys)) for c in percfg]
        rs = collections.Counter(v.cov["replay_stats"])
        rs.update(stats)
        v.cov["replay_stats"] = dict(rs)
        v.cov["keys"] = sorted(set(v.cov["keys"]) | set(keys))
    else:
        v.set(states=tot_states, transitions=tot_trans, traces_validated_against_impl=stats["edges"],
              distinct_nontrivial=stats["nontrivial"], configurations=percfg, replay_stats=dict(stats),
              modes=list(modes), hashseeds=list(hashseeds), keys=list(keys),
              exhaustive=all(not p.get("simulate") for p in plans))
    v.assume("Manager.tla is the reference; its universes are small (4-6 leaves, menus of 14-21 expressions)",
             "a transition is covered by replaying the BFS path to its source and then the transition on a fresh Manager",
             *extra_assume)
    return v.finish() if finish else v
