"""Engine for Expr.tla (C04, C05, and the expression-level parts of C06, C11, C12, C20)."""
import collections, json, os
from . import tlc, build, par
from .common import SPEC, Machinery, Verdict, seed, tier as get_tier

GEN = os.path.join(SPEC, "gen")


def explore(depth, size, mgr, ops, lits, envs, full, simulate=None, sd=0, workers=8):
    os.makedirs(GEN, exist_ok=True)
    txt = open(os.path.join(SPEC, "Expr.cfg.tmpl")).read()
    for k, v in dict(DEPTH=depth, SIZE=size, MGR=mgr, OPS=ops, LITS=lits, ENVS=envs, FULL="TRUE" if full else "FALSE").items():
        txt = txt.replace(f"@{k}@", str(v))
    name = f"Expr_{depth}_{size}_{mgr}_{ops}_{lits}_{envs}_{int(full)}"
    cfg = os.path.join(GEN, name + ".cfg")
    with open(cfg, "w") as f:
        f.write(txt)
    out = os.path.join(GEN, f"{name}_{simulate}_{os.getpid()}.out")
    try:
        r = tlc.run("Expr.tla", cfg, workers=workers, simulate=simulate, depth=(depth + 1 if simulate else None), seed=sd,
                    to_file=out, timeout=3000, heap="6g")
        if r.violation:
            raise Machinery("TLC reports a violation on Expr.tla itself (the model's own lemmas must hold):\n" + r.violation[:3000])
        g = parse(out)
    finally:
        if os.path.exists(out):
            os.remove(out)
    return g, r


def parse(path):
    states, edges, roots = {}, [], []
    with open(path) as fh:
        for line in fh:
            if not line.startswith('"[\\"'):
                continue
            v = json.loads(json.loads(line))
            if v[0] == "TR":
                edges.append((tuple(v[1]), v[2], tuple(v[3])))
            elif v[0] == "ST":
                prev = states.get(tuple(v[1]))
                if prev is not None and prev["node"] != v[2]:
                    raise Machinery(f"two different states share the node id {v[1]} (fingerprint collision): the emitted graph cannot be trusted")
                states[tuple(v[1])] = {"node": v[2], "obs": v[3], "tobs": v[4]}
            elif v[0] == "ROOT":
                r = tuple(v[1])
                if r not in roots:
                    roots.append(r)
    edges = [e for e in edges if e[0] in states and e[2] in states]
    out = collections.defaultdict(list)
    for i, e in enumerate(edges):
        out[e[0]].append(i)
    parent, seen, q = {}, set(roots), collections.deque(roots)
    while q:
        s = q.popleft()
        for i in out[s]:
            d = edges[i][2]
            if d not in seen:
                seen.add(d)
                parent[d] = i
                q.append(d)
    # edges whose source is unreachable from a root in the emitted graph cannot be replayed (simulation output is a forest of paths)
    edges_ok = [i for i, e in enumerate(edges) if e[0] in seen]
    if len(edges_ok) != len(edges):
        remap = {old: new for new, old in enumerate(edges_ok)}
        edges = [edges[i] for i in edges_ok]
        parent = {d: remap[i] for d, i in parent.items() if i in remap}
    return {"states": states, "edges": edges, "parent": parent, "roots": roots}


def thin(g, keep, sd):
    """-simulate output holds ALL out-edges of every visited state; keep the edges on the simulated paths (their target was expanded)
    and a seeded fraction of the remaining fan, so that deep states are replayed without drowning in their fan-out"""
    import random
    rnd = random.Random(sd)
    has_out = {e[0] for e in g["edges"]}
    onpath = set(g["parent"].values())
    kept = [i for i, e in enumerate(g["edges"]) if i in onpath or (e[2] in has_out and e[2] != e[0]) or rnd.random() < keep]
    remap = {old: new for new, old in enumerate(kept)}
    g["edges"] = [g["edges"][i] for i in kept]
    g["parent"] = {d: remap[i] for d, i in g["parent"].items()}
    return g


def run(prop, level, rule, plans, tags, keys=("plain",), modes=("compiled",), hashseeds=(0,), nshards=12, cross_config=False,
        extra_assume=(), verdict=None, finish=True):
    """plans: list of dict(depth,size,mgr,ops,lits,envs,full[,simulate])"""
    v = verdict or Verdict(prop, level, get_tier(), rule)
    scratch = {m: build.build(m) for m in modes}
    stats = collections.Counter()
    cfgs = []
    tot_s = tot_t = 0
    for pi, plan in enumerate(plans):
        g, r = explore(plan["depth"], plan["size"], plan["mgr"], plan["ops"], plan["lits"], plan["envs"], plan.get("full", False),
                       simulate=plan.get("simulate"), sd=seed() + pi)
        if plan.get("simulate") and plan.get("fan_keep", 1.0) < 1.0:
            g = thin(g, plan["fan_keep"], seed() + pi)
        tot_s += len(g["states"])
        tot_t += len(g["edges"])
        cfgs.append({**plan, "tlc_generated": r.states, "tlc_distinct": r.distinct, "emitted_states": len(g["states"]),
                     "emitted_transitions": len(g["edges"]), "tlc_wall_s": round(r.wall, 1)})
        for kk in keys:
            dig = {}
            for mode in modes:
                job = {"graph": g, "scratch": scratch[mode], "mode": mode, "keys": kk, "digest": cross_config, "opaque": plan.get("opaque", True)}
                res = par.run_workers("harness.expr_replay", job, nshards, hashseeds=hashseeds, collect=("digests",))
                fails, st, samples = res[:3]
                stats.update(st)
                if cross_config:
                    for (hs, _sh), d in res[3]["digests"].items():
                        dig.setdefault((mode, hs), {}).update({int(k): x for k, x in d.items()})
                for s in samples[:1]:
                    v.sample({"plan": {k: plan[k] for k in ("depth", "size", "ops", "lits")}, **s})
                for f in fails:
                    if not (set(f["tags"]) & set(tags)):
                        stats["other_property_fail"] += 1
                        continue
                    v.violation(f"[Expr.tla {mode} keys={kk} hashseed={f['hashseed']}] {f['summary']}",
                                {"engine": "expr_replay", "plan": plan, "mode": mode, "keys": kk, "hashseed": f["hashseed"], "env": f["env"],
                                 "path": f["path"], "detail": f["detail"], "tags": f["tags"]})
            if cross_config and dig:
                cs = sorted(dig)
                ref = cs[0]
                stats["cross_config_edges"] += len(dig[ref])
                stats["cross_config_configurations"] = len(cs)
                for c in cs[1:]:
                    for ei in sorted(set(dig[ref]) | set(dig[c])):
                        if dig[ref].get(ei) != dig[c].get(ei):
                            lab = g["edges"][ei][1]
                            a_, b_ = dig[ref].get(ei) or ":", dig[c].get(ei) or ":"
                            zero_only = a_.split(":")[1] == b_.split(":")[1] and ref[0] != c[0]
                            sid, pth = g["edges"][ei][0], []
                            while sid in g["parent"]:
                                pth.append(g["edges"][g["parent"][sid]][1])
                                sid = g["edges"][g["parent"][sid]][0]
                            v.violation(f"[Expr.tla keys={kk}] observations (outcome, value, printed form, dependencies, contents, dump()) after {lab} differ between "
                                        f"configuration {ref} and {c}" + (" only in the sign of a zero" if zero_only else ""),
                                        {"engine": "expr_replay", "plan": plan, "configs": [list(ref), list(c)], "path": pth[::-1] + [lab],
                                         "env": g["states"][sid]["node"][2], "tags": ["C20"]},
                                        known_key="cython-float-int-signed-zero" if zero_only else None)
    v.add(stats["edges"])
    cov = dict(states=tot_s, transitions=tot_t, traces_validated_against_impl=stats["edges"], distinct_nontrivial=stats["nontrivial"],
               exhaustive=all(not p.get("simulate") for p in plans))
    if verdict is None:
        v.set(configurations=cfgs, replay_stats=dict(stats), modes=list(modes), hashseeds=list(hashseeds), keys=list(keys), **cov)
    else:
        v.set(expr_configurations=cfgs, expr_replay_stats=dict(stats))
        for k in ("states", "transitions", "traces_validated_against_impl", "distinct_nontrivial"):
            v.cov[k] = v.cov.get(k, 0) + cov[k]
    v.assume("PyVal.tla is a hand transcription of Python arithmetic on ints, bools and small dyadic floats: every value it gives is cross-checked against "
             "CPython on the same operands during the run (a disagreement is a machinery failure, exit 2)",
             "values outside that window (Opaque: non-dyadic quotients, libm results, NaN arithmetic, complex / numpy operands) are decided by CPython on the "
             "mirrored term; operand order, operator, reflected form, in-place mapping and the zero-division guard are decided by the specification",
             *extra_assume)
    return v.finish() if finish else v
