"""Run TLC and collect what it printed.

run(module, cfg, ...) -> TLCResult with .ok, .states, .distinct, .lines (PrintT output lines), .violation text.
"""
import os, re, shutil, subprocess, tempfile, time, json
from .common import SPEC, Machinery

JAR = "/opt/veriftools/tla/tla2tools.jar:/opt/veriftools/tla/CommunityModules-deps.jar"


class TLCResult:
    def __init__(self):
        self.ok = False
        self.states = self.distinct = self.depth = 0
        self.out = ""
        self.violation = None
        self.coverage = {}
        self.wall = 0.0

    def printed(self, tag=None):
        """Lines printed by PrintT; if tag given, only tuples starting with <<"tag", ..."""
        for line in self.out.splitlines():
            if tag is None or line.startswith('<<"%s"' % tag):
                yield line


def run(module, cfg, workers=1, simulate=None, depth=None, seed=0, timeout=3600, env=None, cwd=None,
        coverage=False, extra=(), deadlock=False, xss="64m", heap="4g", to_file=None, simulate_file=None, jvm=()):
    """module: name of a .tla in spec/ (or absolute path); cfg: cfg file name in spec/ or absolute path."""
    cwd = cwd or SPEC
    meta = tempfile.mkdtemp(prefix="tlc-meta-")
    cmd = ["java", "-XX:+UseParallelGC", f"-Xss{xss}", f"-Xmx{heap}", *jvm, "-cp", JAR, "tlc2.TLC",
           "-workers", str(workers), "-metadir", meta, "-noGenerateSpecTE", "-config", cfg]
    if not deadlock:
        cmd.append("-deadlock")   # disables deadlock checking
    if simulate is not None:
        cmd += ["-simulate", (f"file={simulate_file}," if simulate_file else "") + f"num={simulate}"]
        cmd += ["-seed", str(seed)]
    if depth is not None:
        cmd += ["-depth", str(depth)]
    if coverage:
        cmd += ["-coverage", "1"]
    cmd += list(extra)
    cmd.append(module)
    e = dict(os.environ)
    e.pop("JAVA_TOOL_OPTIONS", None)
    if env:
        e.update(env)
    t0 = time.time()
    res = TLCResult()
    try:
        if to_file:
            with open(to_file, "w") as fh:
                p = subprocess.run(cmd, cwd=cwd, env=e, stdout=fh, stderr=subprocess.STDOUT, timeout=timeout)
            with open(to_file) as fh:
                res.out = fh.read()
        else:
            p = subprocess.run(cmd, cwd=cwd, env=e, stdout=subprocess.PIPE, stderr=subprocess.STDOUT,
                               text=True, timeout=timeout)
            res.out = p.stdout
    except subprocess.TimeoutExpired as ex:
        shutil.rmtree(meta, ignore_errors=True)
        raise Machinery(f"TLC timed out after {timeout}s on {module}/{cfg}")
    finally:
        shutil.rmtree(meta, ignore_errors=True)
    res.wall = time.time() - t0
    res.rc = p.returncode
    m = re.search(r"(\d+) states generated, (\d+) distinct states found", res.out)
    if m:
        res.states, res.distinct = int(m.group(1)), int(m.group(2))
    m = re.search(r"depth of the complete state graph search is (\d+)", res.out)
    if m:
        res.depth = int(m.group(1))
    if "Model checking completed. No error has been found." in res.out or (simulate is not None and p.returncode == 0):
        res.ok = True
    elif re.search(r"Error: (Invariant|Action property|Temporal|The postcondition|Deadlock)|is violated|violated", res.out):
        res.violation = res.out[res.out.find("Error:"):][:6000]
    else:
        if p.returncode != 0:
            raise Machinery(f"TLC failed on {module}/{cfg} (rc={p.returncode}):\n{res.out[-4000:]}")
    return res


def sany(module, cwd=None):
    p = subprocess.run(["java", "-cp", JAR, "tla2sany.SANY", module], cwd=cwd or SPEC,
                       stdout=subprocess.PIPE, stderr=subprocess.STDOUT, text=True)
    return p.returncode == 0 and "Semantic errors" not in p.stdout and "***Parse Error***" not in p.stdout, p.stdout
