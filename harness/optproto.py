"""Binding of OptProto.tla to the code: recorded sessions of real Optimize objects (harness/opt_driver.py) are checked by
OptProtoTrace.tla -- for every recorded public call TLC searches the micro-steps of the protocol for a path from the state before the
call to the logged state after it.  validate() -> {trace index: (number of events accepted, number of events)} for rejected traces."""
import collections, json, os, re, tempfile, concurrent.futures as cf
from . import tlc
from .common import SPEC, Machinery

KEYS_EV = ("ev", "out", "n", "take_best", "en_v", "en_t", "dis_v", "dis_t", "v", "t", "it", "rows", "af")


def _slim(t):
    evs = []
    for e in t["events"]:
        d = {k: e[k] for k in KEYS_EV if k in e}
        d.setdefault("n", 0)
        d.setdefault("take_best", False)
        d.setdefault("it", -1)
        for k in ("en_v", "en_t", "dis_v", "dis_t", "v", "t"):
            d.setdefault(k, [])
        d["rows"] = [{"pt": r["ptn"], "va": r["va"], "ta": r["ta"]} for r in e["rows"]]
        d["af"] = {"cur": e["af"]["curn"], "vact": e["af"]["vact"], "tact": e["af"]["tact"], "loglen": e["af"]["loglen"]}
        evs.append(d)
    return {"env": t["env"], "events": evs}


def validate(traces, workers=6, batch=150):
    batches = [list(range(i, min(i + batch, len(traces)))) for i in range(0, len(traces), batch)]

    def run(idx):
        fd, path = tempfile.mkstemp(prefix="xdv-optproto-", suffix=".json")
        with os.fdopen(fd, "w") as fh:
            json.dump([_slim(traces[i]) for i in idx], fh)
        try:
            r = tlc.run("OptProtoTrace.tla", os.path.join(SPEC, "OptProtoTrace.cfg"), workers=1, env={"TRACE_FILE": path}, timeout=3000, heap="3g")
        finally:
            os.remove(path)
        if r.violation or not r.ok:
            raise Machinery("OptProtoTrace run failed: " + (r.violation or r.out[-1500:])[:1500])
        reached = collections.defaultdict(lambda: 1)
        for m in re.finditer(r'<<"AT",\s*(\d+),\s*(\d+),\s*(\d+)>>', r.out):
            sc, l = int(m.group(1)), int(m.group(2))
            reached[sc] = max(reached[sc], l)
        out = {}
        for j, i in enumerate(idx):
            n = len(traces[i]["events"])
            if reached[j + 1] != n + 1:
                out[i] = (reached[j + 1] - 1, n)
        return out, r

    rejected, states = {}, 0
    with cf.ThreadPoolExecutor(max_workers=workers) as ex:
        for out, r in ex.map(run, batches):
            rejected.update(out)
            states += r.distinct
    return rejected, states


def attribute(ev):
    """which property a rejected call is reported under (one per call)"""
    kind = ev["ev"]
    if kind in ("Enable", "Disable"):
        return "C10"
    if kind in ("Reload", "Tag", "ClearLog"):
        return "C15"
    rows = ev.get("rows", [])
    if kind == "Solve":
        if ev["out"] == "ok" and not ev.get("oracle_tol", True):
            return "C09"
        if ev["out"] != "ok":
            return "C09"
    # step (or the step inside a solve that returned normally)
    if ev["out"] == "ok":
        pre_ok = True
        for r in rows:
            if ev.get("start_inlim", True) and len(r.get("inlim", [])) < ev.get("nk", len(r.get("inlim", []))):
                return "C10"
        if rows and (set(rows[0]["va"]) & set(ev.get("dis_v", [])) or set(rows[0]["ta"]) & set(ev.get("dis_t", []))):
            return "C10"
        af = ev["af"]
        if set(ev.get("dis_v", [])) - set(af["vact"]) or set(ev.get("dis_t", [])) - set(af["tact"]) or (set(ev.get("en_v", [])) - set(ev.get("dis_v", []))) & set(af["vact"]):
            return "C10"
    for i, r in enumerate(rows[1:], 1):
        if r.get("kind") == "jac" and [k for k in range(1, len(r.get("same", [])) + 10) if k not in r["va"] and k <= ev.get("nk", 0) and k not in r.get("same", [])]:
            return "C10"
    return "C15"
