"""Engines for the Table specifications (TableIndex.tla: C07, RowSel.tla: C08, TableHeap.tla: C14)."""
import os, subprocess, concurrent.futures as cf, collections
from . import tlc, build, graph, par
from .common import SPEC, Machinery, Verdict, seed, tier as get_tier

GEN = os.path.join(SPEC, "gen")


def _cfg(tmpl, name, **subst):
    os.makedirs(GEN, exist_ok=True)
    txt = open(os.path.join(SPEC, tmpl)).read()
    for k, v in subst.items():
        txt = txt.replace(f"@{k}@", str(v))
    p = os.path.join(GEN, name)
    with open(p, "w") as f:
        f.write(txt)
    return p


def ti_explore(maxlen, depth, simulate=None, sd=0, inval="never", emit=True, coherent=False, qsel="all"):
    cfg = _cfg("TableIndex.cfg.tmpl", f"TableIndex_{maxlen}_{depth}_{inval}_{qsel}.cfg", MAXLEN=maxlen, DEPTH=depth, INVAL=inval, QSEL=qsel,
               EMIT="ACTION_CONSTRAINT Emit" if emit else "", COHERENT="INVARIANT CacheCoherent" if coherent else "")
    out = os.path.join(GEN, f"ti_{maxlen}_{depth}_{simulate}_{os.getpid()}.out")
    try:
        r = tlc.run("TableIndex.tla", cfg, workers=6, simulate=simulate, depth=(depth + 1 if simulate else None), seed=sd,
                    to_file=out, timeout=3000)
        g = graph.parse(out) if emit else None
    finally:
        if os.path.exists(out):
            os.remove(out)
    return g, r


def c07():
    q = get_tier() == "quick"
    v = Verdict("C07", "model_checking", get_tier(),
                "TableIndex.tla: every index column over {a,b,c} of length 0..MaxLen as initial table, every API mutation (whole-column item/attr assignment, "
                "cell assignment by position / 'name::count>>k' / tuple, data-cell assignment by row name, new column, del/pop) interleaved with Probe = all "
                "lookup forms (4 names x 7 counts x 4 offsets x str/tuple x t[col,row] / rows.get_index / t//row) compared with Resolve on the current index "
                "column, and get_index_unique labels resolving back; every generated transition replayed on a real Table (node identity includes the last "
                "probed snapshot and the last action). non-trivial = Probe edge preceded by at least one mutation")
    scratch = build.build("pure")
    # model-level check of the reference rule (cache coherent), no emission
    _, r0 = ti_explore(3, 3, emit=False, inval="ref", coherent=True)
    if r0.violation:
        raise Machinery("TableIndex.tla reference model violates its own invariant:\n" + r0.violation[:2000])
    plans = [(2, 3, None, "all"), (2, 4, None, "few"), (3, 6, 40, "all")] if q else \
        [(3, 3, None, "all"), (2, 4, None, "all"), (3, 4, None, "few"), (2, 5, None, "few"), (4, 8, 400, "all")]
    tot_s = tot_t = 0
    stats = collections.Counter()
    cfgs = []
    for maxlen, depth, sim, qsel in plans:
        g, r = ti_explore(maxlen, depth, simulate=sim, sd=seed(), qsel=qsel)
        if r.violation:
            raise Machinery("TableIndex.tla violates its own invariant:\n" + r.violation[:2000])
        tot_s += len(g.states)
        tot_t += len(g.edges)
        fails, st, samples = par.run_workers("harness.ti_replay", {"graph": g, "scratch": scratch}, 12)
        stats.update(st)
        cfgs.append({"maxlen": maxlen, "depth": depth, "simulate": sim, "row_designations": qsel, "tlc_generated": r.states, "tlc_distinct": r.distinct,
                     "emitted_transitions": len(g.edges)})
        for s in samples[:2]:
            v.sample(s)
        for f in fails:
            v.violation(f["summary"], {"engine": "ti_replay", "root": f["root"], "path": f["path"], "detail": f["detail"]})
    v.add(stats["edges"])
    v.set(states=tot_s + r0.distinct, transitions=tot_t + r0.states, traces_validated_against_impl=stats["edges"],
          distinct_nontrivial=stats["nontrivial"], configurations=cfgs, exhaustive=all(p[2] is None for p in plans),
          model_invariants={"reference_rule_states": r0.distinct, "invariants": ["CacheCoherent", "LabelsResolve", "TypeOK"]})
    v.assume("names do not contain the separators :: << >>", "offsets landing outside the table are not demanded",
             "while the index column is deleted nothing is demanded of name lookups (they resume when an index column is added again)", "the private _append_row/_update are not in this model")
    return v.finish()


def rs_cases(mode, maxlen, pairmaxlen):
    import json
    cfg = _cfg("RowSel.cfg.tmpl", f"RowSel_{mode}_{maxlen}_{pairmaxlen}.cfg", MAXLEN=maxlen, PAIRMAXLEN=pairmaxlen, MODE=mode)
    out = os.path.join(GEN, f"rs_{mode}_{os.getpid()}.out")
    cases = []
    try:
        r = tlc.run("RowSel.tla", cfg, workers=8, to_file=out, timeout=3000)
        with open(out) as fh:
            for line in fh:
                if line.startswith('"[\\"CASE'):
                    v = json.loads(json.loads(line))
                    cases.append((v[1], v[2], v[3]))
    finally:
        if os.path.exists(out):
            os.remove(out)
    return cases, r


def c08():
    q = get_tier() == "quick"
    v = Verdict("C08", "model_checking", get_tier(),
                "RowSel.tla enumerates every index column over {a,b,c} up to length MaxLen x every selector form (positions incl. -1, position lists, masks, "
                "regex-as-name-set with ::count in {none,0,1,-1,2} and offsets {0,+1,-1}, name spans with open ends and ::count endpoints, value ranges on two "
                "columns with open bounds, integer slices) and, for the composition law, pairs and triples of selectors (rows[s1, s2, s3]); each case is executed on a real Table in two "
                "concretisations (list/ndarray, two regex spellings) and rows[...], rows[s1].rows[s2](.rows[s3]), rows.indices[...], rows.mask[...] are compared with Sel; "
                "repeated under several PYTHONHASHSEED values. non-trivial = case whose result is non-empty and not the whole table")
    scratch = build.build("pure")
    singles, r1 = rs_cases("single", 5, 0)
    pairs, r2 = rs_cases("pair", 0, 3 if q else 4)
    triples, r3 = rs_cases("triple", 0, 4 if q else 5)
    rnd = __import__("random").Random(seed())
    if q:
        pairs = [c for c in pairs if rnd.random() < 0.35]
    ntri = len(triples)
    keep = 12000 if q else 150000
    if len(triples) > keep:
        triples = rnd.sample(triples, keep)
    hs = (0, 1, 2, 3) if q else tuple(range(32))
    stats = collections.Counter()
    for name, cases in (("single", singles), ("pair", pairs), ("triple", triples)):
        fails, st, samples = par.run_workers("harness.rowsel", {"cases": cases, "scratch": scratch}, 4 if q else 1, hashseeds=hs)
        stats.update(st)
        for s in samples[:2]:
            v.sample(s)
        seen = set()
        for f in fails:
            key = (json_key(f["table"]), json_key(f["selectors"]))
            v.violation(f"[hashseed {f['hashseed']}] {f['summary']}",
                        {"engine": "rowsel", "table": f["table"], "selectors": f["selectors"], "expected": f["expected"],
                         "variant": f["variant"], "hashseed": f["hashseed"], "detail": f["detail"]})
    v.add(stats["evaluations"])
    v.set(states=r1.distinct + r2.distinct + r3.distinct, transitions=r1.states + r2.states + r3.states,
          traces_validated_against_impl=len(singles) + len(pairs) + len(triples),
          distinct_nontrivial=stats["nontrivial"] // len(hs), single_cases=len(singles), pair_cases=len(pairs), triple_cases_enumerated=ntri,
          triple_cases_executed=len(triples), hashseeds=list(hs),
          exhaustive=not q)
    v.assume("regular expressions are the spellings of the binding table (alternation, character class, prefix, case flip); names contain no separators",
             "cases whose rows would land outside the table (offsets) are not demanded", "value ranges are enumerated as first selector only")
    from . import heap_engine
    heap_engine.stage(v, "C08", [(3, 2, 6, "RootsTwo", None)] if q else [(3, 3, 6, "RootsAll", None)])
    return v.finish()


def json_key(x):
    import json
    return json.dumps(x, sort_keys=True)
