"""Engine for TableHeap.tla (C14)."""
import collections, json, os
from . import tlc, build, par
from .common import SPEC, Machinery, Verdict, seed, tier as get_tier

GEN = os.path.join(SPEC, "gen")


def explore(tables, depth, rows, roots, simulate=None, sd=0):
    os.makedirs(GEN, exist_ok=True)
    txt = open(os.path.join(SPEC, "TableHeap.cfg.tmpl")).read()
    for k, v in dict(TABLES=tables, DEPTH=depth, ROWS=rows, ROOTS=roots).items():
        txt = txt.replace(f"@{k}@", str(v))
    name = f"TableHeap_{tables}_{depth}_{rows}_{roots}"
    cfg = os.path.join(GEN, name + ".cfg")
    open(cfg, "w").write(txt)
    out = os.path.join(GEN, f"{name}_{simulate}_{os.getpid()}.out")
    try:
        r = tlc.run("TableHeap.tla", cfg, workers=8, simulate=simulate, depth=(depth + 1 if simulate else None), seed=sd, to_file=out, timeout=3000, heap="6g")
        if r.violation:
            raise Machinery("TableHeap.tla violates its own invariant / frame property:\n" + r.violation[:2000])
        g = parse(out)
    finally:
        if os.path.exists(out):
            os.remove(out)
    return g, r


def parse(path):
    states, edges, roots = {}, [], []
    with open(path) as fh:
        for line in fh:
            if not line.startswith('"[\\"'):
                continue
            v = json.loads(json.loads(line))
            if v[0] == "TR":
                edges.append((tuple(v[1]), v[2], tuple(v[3])))
            elif v[0] == "ST":
                if states.get(tuple(v[1]), v[2]) != v[2]:
                    raise Machinery(f"two different heaps share the node id {v[1]} (fingerprint collision): the emitted graph cannot be trusted")
                states[tuple(v[1])] = v[2]
            elif v[0] == "ROOT":
                if tuple(v[1]) not in roots:
                    roots.append(tuple(v[1]))
    edges = [e for e in edges if e[0] in states and e[2] in states]
    out = collections.defaultdict(list)
    for i, e in enumerate(edges):
        out[e[0]].append(i)
    parent, seen, q = {}, set(roots), collections.deque(roots)
    while q:
        s = q.popleft()
        for i in out[s]:
            d = edges[i][2]
            if d not in seen:
                seen.add(d)
                parent[d] = i
                q.append(d)
    keep = [i for i, e in enumerate(edges) if e[0] in seen]
    if len(keep) != len(edges):
        remap = {o: n for n, o in enumerate(keep)}
        edges = [edges[i] for i in keep]
        parent = {d: remap[i] for d, i in parent.items() if i in remap}
    return {"states": states, "edges": edges, "parent": parent, "roots": roots}


def stage(v, prop, plans):
    """rows addressed by name / selected by 'name::count' on tables DERIVED by the API (+, *, rows, cols, _copy) and after assignments:
    the name queries of heap_replay, counted for property `prop` (C08 / C07)"""
    scratch = build.build("pure")
    stats = collections.Counter()
    tot_s = tot_t = 0
    for i, (tb, dp, rw, rt, sim) in enumerate(plans):
        g, r = explore(tb, dp, rw, rt, simulate=sim, sd=seed() + i)
        tot_s += len(g["states"])
        tot_t += len(g["edges"])
        fails, st, samples = par.run_workers("harness.heap_replay", {"graph": g, "scratch": scratch}, 14)
        stats.update(st)
        for f in fails:
            if prop in f["tags"]:
                v.violation(f"[TableHeap.tla hashseed={f['hashseed']}] {f['summary']}", {"engine": "heap_replay", "root": f["root"], "path": f["path"], "detail": f["detail"]})
    v.cov["rule"] += (" || second stage, TableHeap.tla: after every step of the derivation behaviours (rows / cols / + / *k / concatenate / _copy and assignments) every live table is "
                      "addressed by name (first occurrence, 'name::-1', 'name::count-1', an absent name) and compared with a scan of the specification's index column")
    v.cov["states"] = v.cov.get("states", 0) + tot_s
    v.cov["transitions"] = v.cov.get("transitions", 0) + tot_t
    v.cov["traces_validated_against_impl"] = v.cov.get("traces_validated_against_impl", 0) + stats["edges"]
    v.cov["derived_table_name_queries"] = stats["name_queries"]
    v.add(stats["edges"])


def c14():
    q = get_tier() == "quick"
    v = Verdict("C14", "model_checking", get_tier(),
                "TableHeap.tla: a heap of live tables (roots with 0..3 rows, repeated names, scalar entries, several column orders) under every derivation the API offers: "
                "rows[slice / list / mask / regex / reverse], cols[list / 'a b' / :], cols['a+2*b'], +, *k (k=0 refused), Table.concatenate, _copy, _t, and the assignments new column / "
                "whole column (in place) / scalar; after EVERY step every live table must equal its specification: all columns of length len(table), index among the columns, column list, "
                "scalar entries carried over, cells (a column whose array may be shared with an in-place assigned one is Unknown); column expressions evaluate element-wise. Columns are "
                "instantiated as float/int/str and as int/object dtypes. non-trivial = step with at least two live tables compared, or an expression query")
    scratch = build.build("pure")
    plans = [(3, 2, 6, "RootsAll", None), (3, 3, 6, "RootsOne", None), (4, 6, 9, "RootsTwo", 60)] if q else \
            [(3, 3, 6, "RootsAll", None), (4, 3, 8, "RootsTwo", None), (4, 4, 6, "RootsOne", None), (5, 9, 12, "RootsAll", 3000)]
    stats = collections.Counter()
    cfgs = []
    tot_s = tot_t = 0
    for i, (tb, dp, rw, rt, sim) in enumerate(plans):
        g, r = explore(tb, dp, rw, rt, simulate=sim, sd=seed() + i)
        tot_s += len(g["states"])
        tot_t += len(g["edges"])
        fails, st, samples = par.run_workers("harness.heap_replay", {"graph": g, "scratch": scratch}, 14, hashseeds=(0,) if q else (0, 1))
        stats.update(st)
        cfgs.append({"max_tables": tb, "depth": dp, "max_rows": rw, "roots": rt, "simulate": sim, "tlc_generated": r.states, "tlc_distinct": r.distinct,
                     "emitted_transitions": len(g["edges"])})
        for s in samples[:1]:
            v.sample(s)
        for f in fails:
            if "C14" not in f["tags"]:
                stats["other_property_fail"] += 1
                continue
            v.violation(f"[TableHeap.tla hashseed={f['hashseed']}] {f['summary']}", {"engine": "heap_replay", "root": f["root"], "path": f["path"], "detail": f["detail"]})
    v.add(stats["edges"])
    v.set(states=tot_s, transitions=tot_t, traces_validated_against_impl=stats["edges"], distinct_nontrivial=stats["nontrivial"], configurations=cfgs,
          replay_stats=dict(stats), exhaustive=all(p[4] is None for p in plans))
    v.assume("concatenation is demanded for tables with the same columns (the statement's precondition); Table.concatenate rebuilds with the default index 'name' and an unspecified column order",
             "t * 0 raises ValueError (numpy cannot concatenate nothing): modelled as a named refusal that changes nothing",
             "a whole-column assignment writes into the existing numpy array: cells of columns that may share that array are not demanded afterwards (views are by design); "
             "lengths, column lists, scalar entries and all other cells are",
             "transposed tables are leaves of the model (no further derivation from them)")
    return v.finish()
