"""Registry: property id -> check function (returns exit code).  Bounds per tier live here."""
import json, os
from .common import tier, seed
from . import mgr_engine as me

REGISTRY = {}


def prop(pid):
    def deco(f):
        REGISTRY[pid] = f
        return f
    return deco


def _q():
    return tier() == "quick"


U = ("U1", "U2", "U3")


@prop("C01")
def c01():
    if _q():
        plans = [dict(universe=u, variant="core", depth=2) for u in U] + \
                [dict(universe=u, variant="extras", depth=7, simulate=25, emitidx=False, fan_keep=0.1) for u in U]
        hs, keys, modes = (0, 1), ("plain",), ("compiled",)
    else:
        plans = [dict(universe=u, variant="core", depth=3, emitidx=False) for u in U] + \
                [dict(universe=u, variant="extras", depth=10, simulate=1500, emitidx=False) for u in U]
        hs, keys, modes = (0, 1, 2, 3), ("plain", "hostile"), ("compiled", "pure")
    return me.run("C01", "model_checking",
                  "every transition TLC generates for Manager.tla (universes U1-U3, exhaustive to the stated depth plus -simulate fans) is replayed on a "
                  "fresh real Manager; after each step container contents, definitions, knob state must equal the spec successor. "
                  "non-trivial = transition whose triggered task set is non-empty",
                  plans, tags=["C01"], keys=keys, modes=modes, hashseeds=hs, queries=False)


@prop("C02")
def c02():
    if _q():
        plans = [dict(universe=u, variant="core", depth=2, emitidx=False) for u in U] + \
                [dict(universe=u, variant="extras", depth=7, simulate=25, emitidx=False, fan_keep=0.1) for u in U]
        hs = tuple(range(8))
        modes = ("compiled",)
    else:
        plans = [dict(universe=u, variant="core", depth=3, emitidx=False) for u in U] + \
                [dict(universe=u, variant="extras", depth=10, simulate=800, emitidx=False) for u in U]
        hs = tuple(range(32))
        modes = ("compiled", "pure")
    return me.run("C02", "model_checking",
                  "as C01, observing the ordered list of Task.run calls of each assignment: it must be a permutation of the spec's Triggered set "
                  "(each once, none outside) and a linear extension of the spec's Produces relation; repeated under several PYTHONHASHSEED values. "
                  "non-trivial = transition whose triggered task set is non-empty",
                  plans, tags=["C02"], modes=modes, hashseeds=hs, queries=False)


@prop("C03")
def c03():
    if _q():
        plans = [dict(universe=u, variant="extras", depth=2) for u in U] + \
                [dict(universe=u, variant="extras", depth=7, simulate=25, fan_keep=0.1) for u in U]
        hs, modes = (0,), ("compiled",)
    else:
        plans = [dict(universe=u, variant="extras", depth=3) for u in ("U1", "U2")] + [dict(universe="U3", variant="extras", depth=3)] + \
                [dict(universe=u, variant="extras", depth=10, simulate=600) for u in U]
        hs, modes = (0, 1), ("compiled", "pure")
    return me.run("C03", "model_checking",
                  "replay of every transition incl. unregister / redefinition / register / refresh / cleanup / verify / clone-adoption; after each step the "
                  "supports of rdeps, rtasks, deptasks, tartasks must equal the spec's derived indices, _expr/_tasks/_find_dependant_targets must answer as "
                  "derived, verify() must pass, and a fresh manager registering only the surviving definitions must have identical supports. "
                  "non-trivial = transition whose triggered task set is non-empty",
                  plans, tags=["C03"], modes=modes, hashseeds=hs, queries=True)


@prop("C17")
def c17():
    if _q():
        plans = [dict(universe=u, variant="extras", depth=2) for u in U] + \
                [dict(universe=u, variant="extras", depth=7, simulate=25, fan_keep=0.1) for u in U]
        modes = ("compiled",)
    else:
        plans = [dict(universe=u, variant="extras", depth=3) for u in U] + \
                [dict(universe=u, variant="extras", depth=10, simulate=800) for u in U]
        modes = ("compiled", "pure")
    return me.run("C17", "model_checking",
                  "replay with Freeze/Unfreeze in the action menu: while frozen every definitional call must raise ValueError and leave the projection unchanged, "
                  "plain-value assignments must still propagate, and after Unfreeze behaviour must follow the (history-free) spec again. "
                  "Every conforming edge is replayed again with a frozen episode (freeze_tree(); leaf = its current value; unfreeze_tree()) inserted at a "
                  "position of its path where Manager.tla's EpSafe says the three calls compose to the identity: the rest of the path and the edge must "
                  "still conform ('as if it had never been frozen'). non-trivial = transition whose triggered task set is non-empty",
                  plans, tags=["C17"], modes=modes, hashseeds=(0,), queries=True, episodes=(2 if _q() else -1))


@prop("C18")
def c18():
    if _q():
        plans = [dict(universe="U1", variant="faults", depth=2, emitidx=False)] + \
                [dict(universe=u, variant="faults", depth=5, simulate=12, emitidx=False, fan_keep=0.15) for u in U]
        modes = ("compiled",)
    else:
        plans = [dict(universe=u, variant="faults", depth=3, emitidx=False) for u in U] + \
                [dict(universe=u, variant="all", depth=8, simulate=300, emitidx=False) for u in U]
        modes = ("compiled", "pure")
    return me.run("C18", "fault_enumeration",
                  "for every reachable update of Manager.tla and every position k (0 = the write of the assigned location, k = first write of the k-th scheduled task) "
                  "the real container raises a private exception at that write; the exception must propagate, the projection must equal the spec's Crash successor "
                  "(definitions as after the definitional phase, exactly the first k-1 tasks applied), and the walk continues (repeat, further faults). "
                  "non-trivial = transition whose triggered task set is non-empty",
                  plans, tags=["C18"], modes=modes, hashseeds=(0,), queries=False)


@prop("C07")
def c07():
    from . import table_engine
    return table_engine.c07()


@prop("C08")
def c08():
    from . import table_engine
    return table_engine.c08()


def replay(path):
    if not path or not os.path.exists(path):
        print("usage: check replay <replays/...json>")
        return 2
    r = json.load(open(path))
    print(json.dumps({k: r[k] for k in r if k not in ("path",)}, indent=1)[:3000])
    if r.get("engine") == "mgr_replay":
        from . import mgr_single
        return mgr_single.replay(r)
    print("no re-execution available for this engine; the file documents the failing case")
    return 0
