"""Registry: property id -> check function (returns exit code).  Bounds per tier live here."""
import json, os
from .common import tier, seed
from . import mgr_engine as me

REGISTRY = {}


def prop(pid):
    def deco(f):
        REGISTRY[pid] = f
        return f
    return deco


def _q():
    return tier() == "quick"


U = ("U1", "U2", "U3")


@prop("C01")
def c01():
    if _q():
        plans = [dict(universe=u, variant="core", depth=2) for u in U] + [dict(universe="U5", variant="core", depth=5, emitidx=False, allpaths=5, allpaths_cap=150),
                                                                              dict(universe="U6", variant="core", depth=14, emitidx=False, walks=1500),
                                                                              dict(universe="U7", variant="extras", depth=4, emitidx=False)] + \
                [dict(universe=u, variant="extras", depth=7, simulate=25, emitidx=False, fan_keep=0.1) for u in U]
        hs, keys, modes = (0, 1), ("plain",), ("compiled",)
    else:
        plans = [dict(universe=u, variant="core", depth=3, emitidx=False) for u in U] + [dict(universe="U4", variant="core", depth=5, emitidx=False)] + \
                [dict(universe="U5", variant="core", depth=6, emitidx=False, allpaths=6, allpaths_cap=600), dict(universe="U4", variant="core", depth=4, emitidx=False, allpaths=4, allpaths_cap=40),
                 dict(universe="U6", variant="core", depth=18, emitidx=False, walks=12000), dict(universe="U6", variant="extras", depth=18, emitidx=False, walks=6000),
                 dict(universe="U7", variant="extras", depth=5, emitidx=False)] + \
                [dict(universe=u, variant="extras", depth=12, simulate=150, emitidx=False, fan_keep=0.03) for u in U]
        hs, keys, modes = (0, 1), ("plain", "hostile"), ("compiled", "pure")
    v = me.run("C01", "model_checking",
                  "every transition TLC generates for Manager.tla (universes U1-U3, exhaustive to the stated depth plus -simulate fans) is replayed on a "
                  "fresh real Manager; after each step container contents, definitions, knob state must equal the spec successor. "
                  "non-trivial = transition whose triggered task set is non-empty",
                  plans, tags=["C01"], keys=keys, modes=modes, hashseeds=hs, queries=False, finish=False)
    from . import mgr_trace
    mgr_trace.stage(v, "C01", modes=modes)
    return v.finish()


@prop("C02")
def c02():
    if _q():
        plans = [dict(universe=u, variant="core", depth=2, emitidx=False) for u in U] + [dict(universe="U4", variant="faults", depth=3, emitidx=False),
                                                                                          dict(universe="U7", variant="all", depth=3, emitidx=False)] + \
                [dict(universe=u, variant="extras", depth=7, simulate=25, emitidx=False, fan_keep=0.1) for u in U]
        hs = tuple(range(8))
        modes = ("compiled",)
    else:
        plans = [dict(universe=u, variant="core", depth=3, emitidx=False) for u in U] + [dict(universe="U4", variant="faults", depth=4, emitidx=False),
                                                                                          dict(universe="U7", variant="all", depth=4, emitidx=False)] + \
                [dict(universe=u, variant="extras", depth=12, simulate=100, emitidx=False, fan_keep=0.03) for u in U]
        hs = tuple(range(16))
        modes = ("compiled", "pure")
    v = me.run("C02", "model_checking",
                  "as C01, observing the ordered list of Task.run calls of each assignment: it must be a permutation of the spec's Triggered set "
                  "(each once, none outside) and a linear extension of the spec's Produces relation; repeated under several PYTHONHASHSEED values. "
                  "non-trivial = transition whose triggered task set is non-empty",
                  plans, tags=["C02"], modes=modes, hashseeds=hs, queries=False, finish=False)
    from . import mgr_trace, sort_replay
    mgr_trace.stage(v, "C02", modes=modes)
    # the sorting routine itself: Toposort.tla (sorting.py transcribed; TLC proves the lemma "reverse post-order of an acyclic graph is topological and
    # lists exactly the reachable vertices" for every graph over 3 (4) vertices) and every finished run executed on the real toposort()
    sort_replay.stage(v, "C02", _q())
    return v.finish()


@prop("C03")
def c03():
    if _q():
        plans = [dict(universe=u, variant="extras", depth=2) for u in U] + [dict(universe="U4", variant="extras", depth=3)] + \
                [dict(universe="U5", variant="extras", depth=5, allpaths=4, allpaths_cap=20), dict(universe="U6", variant="extras", depth=12, walks=800),
                 dict(universe="U7", variant="extras", depth=3)] + \
                [dict(universe=u, variant="extras", depth=7, simulate=25, fan_keep=0.1) for u in U]
        hs, modes = (0,), ("compiled",)
    else:
        plans = [dict(universe=u, variant="extras", depth=3) for u in U] + [dict(universe="U4", variant="extras", depth=4)] + \
                [dict(universe="U5", variant="extras", depth=6, allpaths=5, allpaths_cap=60), dict(universe="U6", variant="extras", depth=16, walks=8000),
                 dict(universe="U7", variant="extras", depth=4)] + \
                [dict(universe=u, variant="extras", depth=12, simulate=100, fan_keep=0.03) for u in U]
        hs, modes = (0, 1), ("compiled", "pure")
    v = me.run("C03", "model_checking",
                  "replay of every transition incl. unregister / redefinition / register / refresh / cleanup / verify / clone-adoption; after each step the "
                  "supports of rdeps, rtasks, deptasks, tartasks must equal the spec's derived indices, _expr/_tasks/_find_dependant_targets must answer as "
                  "derived, verify() must pass, and a fresh manager registering only the surviving definitions must have identical supports. "
                  "non-trivial = transition whose triggered task set is non-empty",
                  plans, tags=["C03"], modes=modes, hashseeds=hs, queries=True, loops=("refresh", "cleanup", "verify", "clone"), nloops=1, finish=False)
    from . import mgr_trace
    mgr_trace.stage(v, "C03", modes=modes)
    return v.finish()


@prop("C17")
def c17():
    if _q():
        plans = [dict(universe=u, variant="extras", depth=2) for u in U] + [dict(universe="U4", variant="extras", depth=3)] + \
                [dict(universe="U5", variant="all", depth=4), dict(universe="U6", variant="all", depth=10, walks=600), dict(universe="U7", variant="all", depth=3)] + \
                [dict(universe=u, variant="extras", depth=7, simulate=25, fan_keep=0.1) for u in U]
        modes = ("compiled",)
    else:
        plans = [dict(universe=u, variant="extras", depth=3) for u in U] + [dict(universe="U4", variant="extras", depth=4)] + \
                [dict(universe="U5", variant="all", depth=5), dict(universe="U6", variant="all", depth=14, walks=6000), dict(universe="U7", variant="all", depth=4)] + \
                [dict(universe=u, variant="extras", depth=12, simulate=100, fan_keep=0.03) for u in U]
        modes = ("compiled", "pure")
    return me.run("C17", "model_checking",
                  "replay with Freeze/Unfreeze in the action menu: while frozen every definitional call must raise ValueError and leave the projection unchanged, "
                  "plain-value assignments must still propagate, and after Unfreeze behaviour must follow the (history-free) spec again. "
                  "Every conforming edge is replayed again with a frozen episode (freeze_tree(); leaf = its current value; unfreeze_tree()) inserted at a "
                  "position of its path where Manager.tla's EpSafe says the three calls compose to the identity: the rest of the path and the edge must "
                  "still conform ('as if it had never been frozen'). non-trivial = transition whose triggered task set is non-empty",
                  plans, tags=["C17"], modes=modes, hashseeds=(0,), queries=True, episodes=(2 if _q() else -1))


@prop("C18")
def c18():
    if _q():
        plans = [dict(universe="U1", variant="faults", depth=2, emitidx=False), dict(universe="U4", variant="faults", depth=3, emitidx=False),
                 dict(universe="U7", variant="all", depth=4, emitidx=False)] + \
                [dict(universe=u, variant="faults", depth=5, simulate=12, emitidx=False, fan_keep=0.15) for u in U]
        modes = ("compiled",)
    else:
        plans = [dict(universe=u, variant="faults", depth=2, emitidx=False) for u in U] + [dict(universe="U4", variant="faults", depth=4, emitidx=False),
                                                                                            dict(universe="U7", variant="all", depth=5, emitidx=False)] + \
                [dict(universe=u, variant="all", depth=9, simulate=100, emitidx=False, fan_keep=0.05) for u in U]
        modes = ("compiled", "pure")
    return me.run("C18", "fault_enumeration",
                  "for every reachable update of Manager.tla and every position k (0 = the write of the assigned location, k = first write of the k-th scheduled task) "
                  "the real container raises a private exception at that write; the exception must propagate, the projection must equal the spec's Crash successor "
                  "(definitions as after the definitional phase, exactly the first k-1 tasks applied), and the walk continues (repeat, further faults). "
                  "non-trivial = transition whose triggered task set is non-empty",
                  plans, tags=["C18"], modes=modes, hashseeds=(0,), queries=False)


@prop("C07")
def c07():
    from . import table_engine
    return table_engine.c07()


@prop("C08")
def c08():
    from . import table_engine
    return table_engine.c08()


def replay(path):
    if not path or not os.path.exists(path):
        print("usage: check replay <replays/...json>")
        return 2
    r = json.load(open(path))
    print(json.dumps({k: r[k] for k in r if k not in ("path",)}, indent=1)[:3000])
    if r.get("engine") == "mgr_replay":
        from . import mgr_single
        return mgr_single.replay(r)
    print("no re-execution available for this engine; the file documents the failing case")
    return 0


@prop("C12")
def c12():
    if _q():
        plans = [dict(universe=u, variant="xfer", depth=2) for u in U] + [dict(universe="U4", variant="xfer_extras", depth=4)] + \
                [dict(universe=u, variant="xfer_extras", depth=7, simulate=25, emitidx=False, fan_keep=0.1) for u in U]
        modes, hs = ("compiled",), (0,)
    else:
        plans = [dict(universe=u, variant="xfer", depth=2) for u in U] + [dict(universe="U4", variant="xfer_extras", depth=5)] + \
                [dict(universe=u, variant="xfer_extras", depth=12, simulate=100, emitidx=False, fan_keep=0.03) for u in U]
        modes, hs = ("compiled", "pure"), (0, 1)
    from . import expr_engine as ee
    v = me.run("C12", "model_checking",
                  "Manager.tla with the Transfer actions pickle_copy / pickle_orig (pickle.loads(pickle.dumps(manager)) as a stuttering step, the behaviour then "
                  "continues on the copy resp. on the original): the round trip must succeed, verify() must pass, the copy's projection must equal the spec state, "
                  "every later step on either side must conform to the spec (contents, definitions, and on the exhaustive plans the query answers: index supports, "
                  "_expr / _tasks / _find_dependant_targets, verify()), and the other side must stay exactly as it was (independence). Universe U4 (small menu) is "
                  "explored 4-5 calls deep, and every conforming edge is replayed again with a pickle round trip inserted right before it (the BFS tree reaches a state along "
                  "one path only), so that removals after the round trip are reached. non-trivial = transition whose triggered task set is non-empty",
                  plans, tags=["C12"], modes=modes, hashseeds=hs, queries=True, finish=False, loops=("pickle_copy", "pickle_orig"), nloops=2)
    # keys as numpy hands them out (np.int64 list positions, np.str_ names): a round trip must not turn them into other objects
    v = me.run("C12", "model_checking", "", [dict(universe="U2", variant="xfer", depth=2 if _q() else 3, emitidx=False)], tags=["C12"], keys=("numpy",), modes=modes[:1],
               hashseeds=(0,), queries=False, finish=False, loops=("pickle_copy", "pickle_orig"), nloops=2, verdict=v)
    # a linear knob whose remembered source value lags behind its source (an update cut short before the knob ran) when the manager is pickled: universe U8 with
    # faults, extras and transfers together, a pickle round trip inserted before every edge
    v = me.run("C12", "model_checking", "", [dict(universe="U8", variant="xfer_all", depth=4 if _q() else 6, emitidx=False)], tags=["C12"], modes=modes[:1],
               hashseeds=(0,), queries=False, finish=False, loops=("pickle_copy", "pickle_orig"), nloops=2, verdict=v)
    v.cov["rule"] += " || task memory: universe U8 (a linear knob, faults + extras + transfers, 4-6 calls): the knob's remembered source value travels through the round trip as it is"
    # the manager's default container (mgr.ref() without a container: xdeps.utils.AttrDict, attributes and items are one storage): locations assigned through
    # attribute references are read back as items and vice versa, on both sides of every round trip
    v = me.run("C12", "model_checking", "", [dict(universe="U3", variant="xfer", depth=2 if _q() else 3, emitidx=False)], tags=["C12"], keys=("attrdict",), modes=modes[:1],
               hashseeds=(0,), queries=False, finish=False, loops=("pickle_copy", "pickle_orig"), nloops=2, verdict=v)
    v.cov["rule"] += " || default container: universe U3 bound to the AttrDict that Manager.ref() creates by default, half of the locations assigned through attribute " \
                     "references and read as items, half the other way round, pickle inserted before every edge"
    v.cov["rule"] += " || second stage, Expr.tla: every expression TLC builds (every node class: binary, unary, literal, builtin with and without parameters, " \
                     "call with kwargs, nested item/attribute refs, computed keys) is pickled and restored on its own: same structure, same value"
    return ee.run("C12", "model_checking", "", _expr_plans(_q())[:2] if _q() else _expr_plans(False), tags=["C12"], modes=modes, hashseeds=(0,), verdict=v)


@prop("C13")
def c13():
    if _q():
        plans = [dict(universe=u, variant="xfer", depth=2, emitidx=False) for u in U] + [dict(universe="U4", variant="xfer", depth=4, emitidx=False)] + \
                [dict(universe="U5", variant="xfer_all", depth=3, emitidx=False), dict(universe="U6", variant="xfer_all", depth=8, emitidx=False, walks=500)] + \
                [dict(universe=u, variant="xfer", depth=6, simulate=25, emitidx=False, fan_keep=0.15) for u in U]
        modes, hs = ("compiled",), (0, 1)
    else:
        plans = [dict(universe=u, variant="xfer", depth=2, emitidx=False) for u in U] + [dict(universe="U4", variant="xfer", depth=5, emitidx=False)] + \
                [dict(universe="U5", variant="xfer_all", depth=4, emitidx=False), dict(universe="U6", variant="xfer_all", depth=12, emitidx=False, walks=5000)] + \
                [dict(universe=u, variant="xfer", depth=10, simulate=100, emitidx=False, fan_keep=0.05) for u in U]
        modes, hs = ("compiled", "pure"), (0, 1, 2, 3)
    return me.run("C13", "translation_validation",
                  "per-program validation of the code mk_fun/gen_fun emit: at every reachable state of Manager.tla and for every 1- and 2-element tuple of "
                  "undefined leaf references, the generated setter is called with the menu values; the containers must equal the spec's GenFun successor, which is "
                  "DEFINED as assigning the values one after the other through the manager (TLC asserts the batch formulation agrees), and the source text must "
                  "list exactly the triggered expression tasks, once each, in an order allowed by true data flow. non-trivial = non-empty triggered set",
                  plans, tags=["C13"], modes=modes, hashseeds=hs, queries=False)


@prop("C11")
def c11():
    if _q():
        plans = [dict(universe=u, variant="xfer", depth=2, emitidx=False) for u in U] + [dict(universe="U4", variant="xfer", depth=4, emitidx=False)] + \
                [dict(universe=u, variant="xfer_extras", depth=7, simulate=25, emitidx=False, fan_keep=0.1) for u in U]
        modes, hs, keys = ("compiled",), (0,), ("plain", "hostile")
    else:
        plans = [dict(universe=u, variant="xfer", depth=2, emitidx=False) for u in U] + [dict(universe="U4", variant="xfer", depth=5, emitidx=False)] + \
                [dict(universe=u, variant="xfer_extras", depth=12, simulate=100, emitidx=False, fan_keep=0.03) for u in U]
        modes, hs, keys = ("compiled", "pure"), (0, 1), ("plain", "hostile")
    from . import expr_engine as ee
    v = me.run("C11", "model_checking",
                  "Manager.tla with the Transfer actions dumpload (fresh manager over equal containers, load(dump())), copy_plain, copy_bind (copy_expr_from with the "
                  "label rebound to a nested reference) and copy_keep (overwrite=False over a pre-existing definition): after the transfer the new manager's "
                  "projection must equal the spec state and every later step on it must conform (reacts identically). Keys: plain and hostile (quotes, brackets, "
                  "text containing the container label, unicode, ints, floats, tuples). non-trivial = non-empty triggered set",
                  plans, tags=["C11"], keys=keys, modes=modes, hashseeds=hs, queries=False, finish=False, loops=("dumpload", "copy_plain"), nloops=1)
    v.cov["rule"] += " || second stage, Expr.tla: for every expression TLC builds (all operators, literal catalogue incl. negatives and floats, abs/round(x,n)/divmod, " \
                     "math.floor/ceil/trunc, calls with positional and keyword arguments, computed keys; plain and hostile keys) eval(str(e)) in a namespace binding " \
                     "the container labels (and the module math) must rebuild the same AST, compare equal, hash equally and evaluate equally"
    v.assume("a printed expression may name the module math (math.floor/ceil/trunc); Manager.load and gen_fun supply it",
             "trees holding a LiteralExpr are not demanded to rebuild themselves: it prints as its bare literal by design")
    return ee.run("C11", "model_checking", "", _expr_plans(_q())[:2] if _q() else _expr_plans(False), tags=["C11"], keys=keys, modes=modes, hashseeds=(0,), verdict=v)


@prop("C20")
def c20():
    if _q():
        plans = [dict(universe=u, variant="core", depth=2, emitidx=False) for u in U] + \
                [dict(universe=u, variant="xfer_extras", depth=7, simulate=25, emitidx=False, fan_keep=0.1) for u in U]
        hs, keys = (0, 1, 2), ("plain",)
    else:
        plans = [dict(universe=u, variant="xfer_extras", depth=2, emitidx=False) for u in U] + [dict(universe="U4", variant="xfer_extras", depth=4, emitidx=False)] + \
                [dict(universe=u, variant="xfer_extras", depth=12, simulate=100, emitidx=False, fan_keep=0.03) for u in U]
        hs, keys = tuple(range(8)), ("plain", "hostile")
    from . import expr_engine as ee
    v = me.run("C20", "exploration",
                  "the same TLC-generated programs (every transition of Manager.tla to the stated depth plus simulated behaviours, incl. unregister / freeze / refresh / "
                  "clone / pickle / dump+load / copy_expr_from / gen_fun steps) are executed under {compiled from the working tree, pure Python} x PYTHONHASHSEED values; "
                  "per step the canonical transcript (exception class, container contents, dump() text) is digested and must be identical in every configuration. "
                  "non-trivial = transition whose triggered task set is non-empty",
                  plans, tags=["C20"], keys=keys, modes=("compiled", "pure"), hashseeds=hs, queries=False, cross_config=True,
                  extra_assume=("fault-injection plans are not part of the corpus: 'the k-th write' is not the same program under two legal task orders",),
                  finish=False)
    # the same programs with keys as numpy hands them out (np.int64 list indices, np.str_ names): both builds must treat them alike
    v = me.run("C20", "exploration", "", [dict(universe=u, variant="xfer", depth=2, emitidx=False) for u in (("U2",) if _q() else U)], tags=["C20"], keys=("numpy",),
               modes=("compiled", "pure"), hashseeds=hs[:2], queries=False, cross_config=True, verdict=v, finish=False)
    v.cov["rule"] += " || second stage, Expr.tla: the expression-term corpus of C04-C06 (construction, evaluation, printed form, dependencies, in-place operators) " \
                     "replayed under the same configurations with per-step digests compared"
    return ee.run("C20", "exploration", "", _expr_plans(True)[:1] if _q() else _expr_plans(False)[:2], tags=["C20"], modes=("compiled", "pure"),
                  hashseeds=hs[:2] if _q() else hs[:6], cross_config=True, verdict=v)


def _expr_plans(q):
    if q:
        return [dict(depth=3, size=1, mgr=1, ops="OpsAll", lits="LitsAll", envs="EnvsAll", full=True),
                dict(depth=3, size=2, mgr=0, ops="OpsFew", lits="LitsTwo", envs="EnvsTwo", full=False),
                dict(depth=6, size=3, mgr=2, ops="OpsAll", lits="LitsAll", envs="EnvsAll", full=True, simulate=60, fan_keep=0.03)]
    return [dict(depth=3, size=1, mgr=1, ops="OpsAll", lits="LitsAll", envs="EnvsAll", full=True),
            dict(depth=3, size=2, mgr=0, ops="OpsArith", lits="LitsFew", envs="EnvsTwo", full=False),
            dict(depth=4, size=1, mgr=2, ops="OpsFew", lits="LitsFew", envs="EnvsOne", full=False),
            dict(depth=8, size=4, mgr=3, ops="OpsAll", lits="LitsAll", envs="EnvsAll", full=True, simulate=300, fan_keep=0.01)]


@prop("C04")
def c04():
    from . import expr_engine as ee
    q = _q()
    return ee.run("C04", "model_checking",
                  "Expr.tla: TLC enumerates expression construction (every binary operator x {ref op literal, literal op ref, ref op ref, ref-in-the-left} x the "
                  "literal catalogue {-3,-1,0,1,2,3,True,False,0.5,-1.5,2.0,0.0}, unary operators, abs/round/divmod/trunc/floor/ceil with literal and reference "
                  "parameters, calls with positional and keyword arguments, computed keys, LiteralExpr) over four container environments, then assignment, the 13 "
                  "in-place operators on defined and undefined locations and operand changes; every transition is replayed on real reference objects and the built "
                  "structure, value (by type and value), NaN / exception class are compared with the specification and with CPython on the mirrored term, also over "
                  "complex, numpy-scalar and numpy-array operands. non-trivial = edge whose target expression has an operator node, or an in-place step",
                  _expr_plans(q), tags=["C04"], modes=("compiled",) if q else ("compiled", "pure"), hashseeds=(0,))


@prop("C05")
def c05():
    from . import expr_engine as ee
    q = _q()
    return ee.run("C05", "model_checking",
                  "Expr.tla: for every expression TLC builds (every node class x every operand slot holding a reference directly or below other nodes: operands, "
                  "builtin parameters, call arguments and keyword arguments, computed keys, expressions over a bare container reference) _get_dependencies() must be a "
                  "set projecting exactly onto the specification's Locs; TLC checks on the model that a location whose change alters the value lies in Locs "
                  "(invariant Sensitive). non-trivial = edge whose target expression has an operator node",
                  _expr_plans(q)[:2] if q else _expr_plans(q), tags=["C05"], keys=("plain", "negidx"), modes=("compiled",) if q else ("compiled", "pure"), hashseeds=(0,))


@prop("C06")
def c06():
    from . import paths_engine
    return paths_engine.c06()


@prop("C14")
def c14():
    from . import heap_engine
    return heap_engine.c14()


@prop("C09")
def c09():
    from . import opt_engine
    return opt_engine.c09()


@prop("C10")
def c10():
    from . import opt_engine
    return opt_engine.c10()


@prop("C15")
def c15():
    from . import opt_engine
    return opt_engine.c15()


@prop("C19")
def c19():
    from . import madx_engine
    return madx_engine.c19()
