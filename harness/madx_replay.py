"""Direction A for Madx.tla (C19): every syntax tree TLC enumerates is spelled (minimal / full parentheses, several number and
operator spellings), parsed and evaluated by the real MadxEval in both ways (immediate over plain data, deferred over references,
item and attribute element access), compared with the specification's values and with Python on the mirrored term; the deferred
expression is then assigned through the manager and re-compared after every variable / element attribute it reads has changed."""
import collections, math, operator, warnings
from .expr_replay import to_py, exact, same, Outcome, outcome, same_outcome, spec_outcome, Machinery, canon

NUM_SPELL = {2.0: ["2", "2.0", "2.", "2e0", "0.2E1"], 0.5: ["0.5", ".5", "5e-1", "5.E-1"], 3.0: ["3", "3.00", "3e+0"], 0.0: ["0", "0.0", "0e5", ".0"]}
OPS = {"+": operator.add, "-": operator.sub, "*": operator.mul, "/": operator.truediv, "^": operator.pow}
NEWVALS = [3, -0.5, 0, 1.5]


class Obj:
    pass


def spell(tokens, variant):
    out = []
    for t in tokens:
        if isinstance(t, dict):
            v = to_py(t["v"])
            sp = NUM_SPELL.get(v, [repr(v)])
            out.append(sp[variant % len(sp)])
        elif t == "^":
            out.append("**" if variant % 2 else "^")
        else:
            out.append(t)
    sep = ["", " ", ""][variant % 3]
    s = sep.join(out)
    return s.replace("- >", "->") if sep == " " else s


def pyeval(x, getv, gete, deferred):
    k = x["k"]
    if k == "num":
        return float(to_py(x["v"]))
    if k == "var":
        return getv(x["n"])
    if k == "elem":
        return gete(x["el"], x["a"])
    if k == "neg":
        return -pyeval(x["a"], getv, gete, deferred)
    if k == "pos":
        return +pyeval(x["a"], getv, gete, deferred)
    if k == "bin":
        a = pyeval(x["a"], getv, gete, deferred)
        b = pyeval(x["b"], getv, gete, deferred)
        if x["op"] == "/" and deferred:
            try:
                return a / b
            except ZeroDivisionError:
                return float("nan")
        return OPS[x["op"]](a, b)
    if k == "call1":
        return getattr(math, x["f"])(pyeval(x["a"], getv, gete, deferred))
    if k == "call2":
        return getattr(math, x["f"])(pyeval(x["a"], getv, gete, deferred), pyeval(x["b"], getv, gete, deferred))
    raise KeyError(k)


def names_in(x):
    if x["k"] in ("var", "elem", "call1", "call2"):
        return True                      # a call goes through the function container: deferred as well
    return any(names_in(x[c]) for c in ("a", "b") if c in x and isinstance(x[c], dict) and "k" in x[c])


def const_raises(x):
    """exception class raised by a sub-term made of constants only (it is evaluated while the string is parsed, in both modes)"""
    if not isinstance(x, dict) or "k" not in x:
        return None
    for c in ("a", "b"):
        if c in x and isinstance(x[c], dict) and "k" in x[c]:
            r = const_raises(x[c])
            if r:
                return r
    if not names_in(x):
        o = outcome(lambda: pyeval(x, None, None, False))
        return o.exc
    return None


def worker(job, shard, nshards):
    import xdeps
    from xdeps.madxutils import MadxEval
    import xdeps.refs as xr
    cases, envs = job["cases"], job["envs"]
    fails, stats, samples = [], collections.Counter(), []
    mine = list(range(shard, len(cases), nshards))
    # One environment = plain data + a manager + one immediate and one deferred evaluator, built through the public constructors
    # (building a Lark parser costs ~25 ms) and used for many strings, like MadxEnv importing a lattice.  The same strings are then
    # evaluated again in the NEXT environment by its own evaluators: whatever an evaluator keeps must not leak into another one.
    for mode in ("item", "attr"):
        for ename, env in envs.items():
            variables = collections.defaultdict(lambda: 0)
            init_v = {n: to_py(v) for n, v in env["v"].items()}
            init_e = {(el, a): to_py(v) for el, d in env["e"].items() for a, v in d.items()}
            variables.update(init_v)
            if mode == "item":
                elements = {el: {a: to_py(v) for a, v in d.items()} for el, d in env["e"].items()}
                gete = lambda el, a: elements[el][a]

                def rawe(el, a, v):
                    elements[el][a] = v

                def sete(el, a, v, eref):
                    eref[el][a] = v
            else:
                elements = {}
                for el, d in env["e"].items():
                    o = Obj()
                    for a, v in d.items():
                        setattr(o, a, to_py(v))
                    elements[el] = o
                gete = lambda el, a: getattr(elements[el], a)

                def rawe(el, a, v):
                    setattr(elements[el], a, v)

                def sete(el, a, v, eref):
                    setattr(eref[el], a, v)
            getv = lambda n: variables[n]
            m = xdeps.Manager()
            vref, eref, fref = m.ref(variables, "v"), m.ref(elements, "e"), m.ref(math, "f")
            ev_imm = MadxEval(variables, math, elements, get=mode).eval
            ev_def = MadxEval(vref, fref, eref, get=mode).eval
            stats["evaluators_built"] += 2
            for ci in mine:
                if (ci + (0 if mode == "item" else 1)) % 2:
                    continue                        # each tree in one element mode
                case = cases[ci]
                ast = case["ast"]
                for style in ("min", "full"):
                    variant = (ci + (0 if style == "min" else 1)) % 30         # the same spelling in every environment
                    s = spell(case[style], variant)
                    stats["strings"] += 1
                    # reset the plain data of this environment (behind the manager's back: the previous definition of t_out is dropped first)
                    if vref["t_out"] in m.tasks:
                        m.unregister(vref["t_out"])
                    for n in list(variables):
                        if n not in init_v:
                            del variables[n]
                    variables.update(init_v)
                    for (el, a), v in init_e.items():
                        rawe(el, a, v)

                    def fail(summary, detail=None):
                        stats["fail"] += 1
                        if len(fails) < 100:
                            fails.append({"tags": ["C19"], "summary": summary, "string": s, "ast": ast, "env": ename, "mode": mode, "style": style, "detail": detail or {}})
                    with warnings.catch_warnings():
                        warnings.simplefilter("ignore")
                        # ---- the mirrored term and the specification --------------------------------------------------
                        m_imm = outcome(lambda: pyeval(ast, getv, gete, False))
                        m_def = outcome(lambda: pyeval(ast, getv, gete, True))
                        for which, mo in (("imm", m_imm), ("def", m_def)):
                            sv = case["vals"][ename][which]
                            if sv["t"] == "raise" or exact(sv):
                                stats["spec_exact_values"] += 1
                                if not same_outcome(spec_outcome(sv), mo):
                                    raise Machinery(f"Madx.tla/PyVal.tla disagree with CPython on {ast} in env {ename} ({which}): spec {spec_outcome(sv)!r}, CPython {mo!r}")
                            else:
                                stats["spec_opaque_values"] += 1
                        # ---- immediate evaluation ---------------------------------------------------------------------------
                        imm = outcome(lambda: ev_imm(s))
                        if imm.exc and imm.exc not in ("ZeroDivisionError", "ValueError", "OverflowError", "TypeError") and not m_imm.exc:
                            fail(f"madeval({s!r}) raised {imm.exc}; the grammar derives this string")
                            continue
                        if not same_outcome(imm, m_imm):
                            fail(f"madeval({s!r}) gives {imm!r}, the syntax tree evaluates to {m_imm!r}")
                            continue
                        # ---- deferred evaluation -----------------------------------------------------------------------------
                        ex = outcome(lambda: ev_def(s))
                        if ex.exc:
                            if not ((m_def.exc and ex.exc == m_def.exc) or ex.exc == const_raises(ast)):     # a constant sub-term is evaluated while the string is parsed
                                fail(f"madexpr({s!r}) raised {ex.exc} while building the deferred expression")
                            continue
                        e = ex.val
                        isref = isinstance(e, xr.BaseRef)
                        if not isref and case["names"]:
                            fail(f"madexpr({s!r}) is the plain value {e!r} although the string reads {case['names']}")
                            continue
                        dv = outcome(e._get_value) if isref else Outcome(val=e)
                        if not same_outcome(dv, m_def):
                            fail(f"madexpr({s!r})._get_value() gives {dv!r}, the syntax tree (division by zero -> NaN) evaluates to {m_def!r}")
                            continue
                        if not imm.exc and not same_outcome(dv, imm) and not (isinstance(dv.val, float) and dv.val != dv.val):
                            fail(f"madexpr({s!r}) gives {dv!r} but madeval gives {imm!r}")
                            continue
                        if style == "full":
                            stats["fully_parenthesised"] += 1
                        if not isref:
                            stats["constant_strings"] += 1
                            continue
                        # ---- through the manager: assign, change what it reads, compare again ----------------------------
                        stats["nontrivial"] += 1
                        a_ = outcome(lambda: vref.__setitem__("t_out", e))
                        if a_.exc:
                            if not (dv.exc and a_.exc == dv.exc):
                                fail(f"assigning madexpr({s!r}) to a variable raised {a_.exc}")
                            continue
                        for j, name in enumerate(case["names"]):
                            nv = NEWVALS[(ci + j) % len(NEWVALS)]
                            if name[0] == "v":
                                o = outcome(lambda: vref.__setitem__(name[1], nv))
                            else:
                                o = outcome(lambda: sete(name[1], name[2], nv, eref))
                            want = outcome(lambda: pyeval(ast, getv, gete, True))
                            if o.exc or want.exc:
                                if o.exc != want.exc:
                                    fail(f"after {'.'.join(name[1:])} = {nv}: the update raised {o.exc}, the syntax tree gives {want!r}")
                                break
                            got = variables["t_out"]
                            stats["updates"] += 1
                            if not same(got, want.val):
                                fail(f"after {'.'.join(name[1:])} = {nv} through the manager, the variable defined by madexpr({s!r}) holds {canon(got)}, the syntax tree evaluates to {want!r}")
                                break
                            again = outcome(lambda: ev_imm(s))
                            if not again.exc and not same(again.val, got) and not (isinstance(got, float) and got != got):
                                fail(f"after {'.'.join(name[1:])} = {nv}: deferred {canon(got)} but immediate evaluation gives {again!r}")
                                break
                    if len(samples) < 3 and len(s) > 12:
                        samples.append({"string": s, "mode": mode, "env": ename, "deferred_value": repr(dv), "immediate": repr(imm)})
    return {"fails": fails, "stats": dict(stats), "samples": samples}
