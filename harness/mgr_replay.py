"""Direction A for Manager.tla: replay every transition TLC generated on the real Manager.

Main-process side:  parse_tlc_output() -> Graph (states interned, BFS tree);  run_replay() shards the edges over
worker subprocesses (one per (build mode, PYTHONHASHSEED, shard)), each of which imports xdeps from a scratch
build and executes  path-to-source + edge  with full checks on the edge.

Worker side:  python -m harness.mgr_replay worker <job.pickle> <shard> <nshards>   (prints one JSON line)
"""
import json, os, pickle, subprocess, sys, tempfile, time, collections, hashlib

PY = "/venv/bin/python"


# ---------------------------------------------------------------------------------------------------------
class Graph:
    def __init__(self):
        self.states = []          # id -> spec state list (as emitted)
        self.index = {}           # canonical json -> id
        self.edges = []           # (src, label, dst)
        self.parent = {}          # state id -> edge index that first reached it (BFS tree)
        self.init = None
        self.meta = None
        self.ep = {}              # state id -> leaves where a frozen episode is the identity (Manager.tla EpSafe)
        self.walkpath = {}        # walk emission: edge index -> the edge indices of its walk before it

    def intern(self, st):
        key = json.dumps(st, sort_keys=True)
        i = self.index.get(key)
        if i is None:
            i = len(self.states)
            self.index[key] = i
            self.states.append(st)
        return i


def parse_tlc_output(path):
    g = Graph()
    with open(path) as fh:
        for line in fh:
            if not line.startswith('"[\\"'):
                continue
            v = json.loads(json.loads(line))
            tag = v[0]
            if tag == "TR":
                s, lab, d = g.intern(v[1]), v[2], g.intern(v[3])
                g.edges.append((s, lab, d))
                if len(v) > 4 and v[4]:
                    g.ep[d] = list(v[4])
            elif tag == "META":
                g.meta = v[1]
            elif tag == "INIT":
                g.init = g.intern(v[1])
    if g.init is None and g.edges:
        g.init = g.edges[0][0]
    # BFS tree over emitted edges (TLC emits in BFS order with one worker; do not rely on it)
    out = collections.defaultdict(list)
    for i, (s, lab, d) in enumerate(g.edges):
        out[s].append(i)
    seen = {g.init}
    q = collections.deque([g.init])
    while q:
        s = q.popleft()
        for i in out[s]:
            d = g.edges[i][2]
            if d not in seen:
                seen.add(d)
                g.parent[d] = i
                q.append(d)
    return g


def path_to(g, sid):
    p = []
    while sid != g.init:
        i = g.parent[sid]
        p.append(i)
        sid = g.edges[i][0]
    p.reverse()
    return p


def _plain(v):
    """tlaval value -> what json.loads(ToJson(v)) gives (sets and sequences as lists, functions / records as dicts)"""
    if isinstance(v, dict):
        return {k: _plain(x) for k, x in v.items()}
    if isinstance(v, (set, frozenset)):
        return sorted((_plain(x) for x in v), key=lambda x: json.dumps(x, sort_keys=True))
    if isinstance(v, (list, tuple)):
        return [_plain(x) for x in v]
    return v


def parse_walk_files(d, banner):
    """one file per simulated behaviour (TLC -simulate file=...): STATE_n blocks in TLA+ syntax; the edge n -> n+1 is labelled by `last` of state n+1"""
    import re
    from . import tlaval
    g = Graph()
    for line in banner.splitlines():
        if line.startswith('"[\\"META'):
            g.meta = json.loads(json.loads(line))[1]
    for fn in sorted(os.listdir(d)):
        txt = open(os.path.join(d, fn)).read()
        prev, path = None, []
        for blk in re.split(r"\nSTATE_\d+ == *\n", txt)[1:]:
            blk = blk.split("\n\n")[0]
            vs = {m.group(1): _plain(tlaval.parse(m.group(2))) for m in re.finditer(r"/\\ (\w+) = (.*?)(?=\n/\\ |\Z)", blk, re.S)}
            st = g.intern([vs["mem"], vs["defs"], vs["reg"], vs["kprev"], vs["frozen"], vs["ghost"]])
            if prev is None:
                if g.init is None:
                    g.init = st
                elif g.init != st:
                    raise ValueError("walks start in different states")
            else:
                g.edges.append((prev, vs["last"], st))
                g.walkpath[len(g.edges) - 1] = list(path)
                path.append(len(g.edges) - 1)
            prev = st
    return g


# ---------------------------------------------------------------------------------------------------------
# worker

def _lab_key(lab):
    return json.dumps({k: v for k, v in lab.items() if k in ("a", "l", "v", "e", "t", "op", "x", "kind", "k")}, sort_keys=True)


def _order_ok(runs, lab, extra_ok=False):
    """extra_ok: the world lives one container level further down than the specification's universe (after a rebinding copy): the
    additional enclosing container legitimately triggers more tasks (they depend on it structurally), so a superset is accepted"""
    trig = lab.get("trig", [])
    if lab.get("flat"):
        # nested updates (Manager.tla FlatOrders): a task reached by the outer and by an inner update runs once in each; the observed list of runs
        # must be one of the flat orders the specification lists
        if list(runs) in [list(q) for q in lab["flat"]]:
            return None, None
        return ("set" if sorted(set(runs)) != sorted(set(lab["flat"][0])) else "order"), f"ran {runs}, the flat orders of this update (nested updates included) are {lab['flat']}"
    if extra_ok and len(set(runs)) == len(runs) and set(trig) <= set(runs):
        runs = list(runs)
    elif sorted(runs) != sorted(trig):
        return "set", f"ran {runs}, triggered set is {sorted(trig)}"
    pos = {t: i for i, t in enumerate(runs)}
    for u, t in lab.get("prec", []):
        if u in pos and t in pos and pos[u] > pos[t]:
            return "order", f"{t} ran before its producer {u}: order {runs}"
    return None, None


def _stale_refresh_only(w, diff, g, src, dst):
    """the observed state differs from the specification only in locations the specification itself lists as stale (ghost), in a rebased world"""
    from harness import mgrlib as ml
    if not w.uni["name"].endswith("/rebased") or [c for c, _ in diff] != ["mem"]:
        return False
    stale = set(ml.spec_state(g.states[src])["ghost"]) | set(ml.spec_state(g.states[dst])["ghost"])
    return set(diff[0][1]) <= stale


def _closure(pairs, start):
    adj = collections.defaultdict(set)
    for x, y in pairs:
        adj[x].add(y)
    seen, st = {start}, [start]
    while st:
        x = st.pop()
        for y in adj[x]:
            if y not in seen:
                seen.add(y)
                st.append(y)
    return seen


def worker_main(jobfile, shard, nshards):
    job = pickle.load(open(jobfile, "rb"))
    sys.path.insert(0, job["scratch"])
    import xdeps, xdeps.refs as xr
    assert os.path.abspath(xdeps.__file__).startswith(job["scratch"]), xdeps.__file__
    assert xr.is_cythonized() == (job["mode"] == "compiled"), (job["mode"], xr.is_cythonized())
    from harness import mgrlib as ml
    g = job["graph"]
    uni = ml.universe(job["universe"], job["keys"])
    taskspec = {}
    if g.meta:
        for tid, sp in g.meta.items():
            taskspec[tid] = sp
    init = ml.spec_state(g.states[g.init])
    fails = []      # dict(tags, summary, edge, detail)
    stats = collections.Counter()
    samples = []
    queries = job.get("queries", True)

    flavour = [0]
    via = [None]          # an explicit path (edge indices) to the source of the edge under replay, instead of the BFS path

    def the_path(sid):
        return via[0] if via[0] is not None else path_to(g, sid)

    def fresh():
        w_ = ml.World(uni, init["mem"], taskspec)
        w_.ctl.stop_flavour = flavour[0]      # every other fault group raises the StopIteration-flavoured fault
        return w_

    want_digest = job.get("digest", False)
    digests, transcripts = {}, {}
    epi = {"cur": None}     # (position in the path, leaf) of the frozen episode inserted into the current replay, or None

    def fail(tags, summary, ei, detail, known=None):
        if epi["cur"] is not None:
            # the same edge conformed without the inserted calls: what differs is their presence in the history
            pl = epi["cur"][1]
            tags, known = [ep_tag()], None
            what = (f"{pl['a']}({pl.get('kind', '')})" if isinstance(pl, dict) else f"freeze_tree(); {pl} = <its current value>; unfreeze_tree()")
            summary = f"after {what} inserted before step {epi['cur'][0]} of the path (the specification says these calls change nothing there): " + summary
            detail = dict(detail, inserted=[epi["cur"][0], pl])
        # a step that misbehaves on a manager obtained by pickling / dump+load / copy_expr_from is (also) that transfer's failure:
        # "reacts identically to later assignments", "same contents and consistency under any further sequence"
        hist = set()
        for i in the_path(g.edges[ei][0]):
            pl = g.edges[i][1]
            if pl.get("a") == "Transfer":
                hist.add("C12" if pl["kind"].startswith("pickle") else "C11")
            if pl.get("exc") == "Fault":
                hist.add("C18")          # "repeating the assignment once the fault is gone re-establishes the value of every dependant"
        if hist and epi["cur"] is None:
            tags = sorted(set(tags) | hist)
        percat[tuple(tags)] += 1
        if percat[tuple(tags)] <= 40:           # per tag set, so that one frequent kind of failure cannot crowd out another property's
            fails.append({"tags": tags, "summary": summary, "edge": ei, "detail": detail, "known": known,
                          "path": [g.edges[i][1] for i in the_path(g.edges[ei][0])] + [g.edges[ei][1]]})
        stats["fail"] += 1
        failed_now[0] += 1
    failed_now = [0]
    percat = collections.Counter()

    # fault edges: group candidates by (src, action key)
    groups = collections.OrderedDict()
    for ei, (s, lab, d) in enumerate(g.edges):
        if lab.get("exc") == "Fault":
            groups.setdefault((s, _lab_key(lab)), []).append(ei)
        else:
            groups[("e", ei)] = [ei]
    # fan sampling: in -simulate output every visited state contributes ALL its out-edges; edges on the simulated
    # paths (their target was expanded) are always replayed, of the remaining leaf edges of deep states only a
    # seeded fraction is (fan_keep = 1.0 replays everything)
    fan_keep = job.get("fan_keep", 1.0)
    if fan_keep < 1.0:
        import random
        has_out = {s for s, _, _ in g.edges}
        rnd = random.Random(job.get("seed", 0))
        keepmask = {}
        for key, eis in groups.items():
            s0, _, d0 = g.edges[eis[0]]
            deep = s0 != g.init
            keepmask[key] = (not deep) or (d0 in has_out) or (rnd.random() < fan_keep)
        groups = collections.OrderedDict((k, v) for k, v in groups.items() if keepmask[k])
    todo = [k for i, k in enumerate(groups) if i % nshards == shard]

    def episode(w, st, payload):
        """inserted calls that the specification says change nothing at this state:
           a leaf name  -> freeze_tree(); leaf = <current value>; unfreeze_tree()   (EpSafe, C17)
           a label dict -> a self-loop action of the emitted graph at this state (pickle round trip, refresh, clone, ...): the
                           behaviour continues on whatever manager that action hands back
        -> (reason of failure or None, world)"""
        if isinstance(payload, dict):
            r = ml.execute(w, payload)
            if r["exc"] is not None:
                return f"{payload['a']}({payload.get('kind', '')}) raised {r['exc']!r}", w
            return None, (r["world"] if r.get("world") is not None else w)
        v = ml.spec_state(g.states[st])["mem"][payload]
        for lab_ in ({"a": "Freeze"}, {"a": "SetValue", "l": payload, "v": v}, {"a": "Unfreeze"}):
            r = ml.execute(w, lab_)
            if r["exc"] is not None:
                return f"{lab_['a']} raised {r['exc']!r}", w
        return None, w

    def ep_tag():
        pl = epi["cur"][1]
        if isinstance(pl, dict):
            return ("C12" if pl.get("kind", "").startswith("pickle") else "C11") if pl["a"] == "Transfer" else "C03"
        return "C17"

    def go_to(src, ei):
        """fresh world driven along the BFS path to src; returns None if the prefix does not conform"""
        w = fresh()
        for k, pi in enumerate(the_path(src)):
            ps, plab, pd = g.edges[pi]
            if epi["cur"] is not None and epi["cur"][0] == k:
                why, w = episode(w, ps, epi["cur"][1])
                if why:
                    fail([ep_tag()], why, ei, {})
                    return None
            fault = plab.get("k") if plab.get("exc") == "Fault" else None
            res = ml.execute(w, plab, fault=fault)
            if res.get("world") is not None:
                w = res["world"]
            if res["exc"] is not None and plab.get("exc", "none") == "none":
                stats["prefix_diverged"] += 1
                return None
            exp = ml.spec_state(g.states[pd])
            try:
                obs = ml.abs_state(w)
            except ml.Uncovered:
                return None
            if ml.state_diff(obs, exp):
                if _stale_refresh_only(w, ml.state_diff(obs, exp), g, ps, pd):
                    w.resync(exp["mem"], exp["kprev"])
                    stats["prefix_resync"] += 1
                elif plab.get("cyc") or plab.get("exc") == "Fault":
                    if obs["defs"] != exp["defs"] or obs["reg"] != exp["reg"]:
                        stats["prefix_diverged"] += 1
                        return None
                    w.resync(exp["mem"], exp["kprev"])      # known-finding / alternative fault order: continue from the spec state
                    stats["prefix_resync"] += 1
                else:
                    stats["prefix_diverged"] += 1       # reported by that edge's own replay
                    return None
        if epi["cur"] is not None and epi["cur"][0] == len(the_path(src)):
            why, w = episode(w, src, epi["cur"][1])
            if why:
                fail([ep_tag()], why, ei, {})
                return None
        return w

    def process(key):
        eis = groups[key]
        flavour[0] = 0 if isinstance(key[0], str) else sum(map(ord, key[1])) % 3      # Fault / StopIteration-flavoured / KeyError-ValueError-...-flavoured
        s, lab, d = g.edges[eis[0]]
        w = go_to(s, eis[0])
        if w is None:
            stats["skipped_prefix"] += 1
            return
        stats["edges" if epi["cur"] is None else "episode_edges"] += len(eis)
        isfault = lab.get("exc") == "Fault"
        res = ml.execute(w, lab, fault=lab.get("k") if isfault else None)
        w0 = w
        if res.get("world") is not None:
            w = res["world"]
        try:
            obs = ml.abs_state(w)
        except ml.Uncovered as u:
            stats["uncovered"] += 1
            if res["exc"] is None and str(u).startswith("location"):
                # every location of the spec state is in the binding table: a definition over a location that is not
                # cannot be the state the specification prescribes
                t_ = ("C12" if lab.get("kind", "").startswith("pickle") else "C11") if lab["a"] == "Transfer" else \
                     ("C13" if lab["a"] == "GenFun" else "C03")
                fail([t_, "C01"] if t_ == "C03" else [t_], f"{lab['a']}({lab.get('kind', lab.get('l', ''))}): the manager now holds a definition over a "
                     f"location outside the specification's universe: {u}", eis[0], {"uncovered": str(u)})
            return
        if want_digest and epi["cur"] is None:
            try:
                dump = w.m.dump()
            except Exception as ex_:
                dump = "dump raised " + type(ex_).__name__
            tr = json.dumps([res["excname"], sorted((k, repr(v)) for k, v in obs["mem"].items()), dump], default=str)
            digests[eis[0]] = hashlib.sha1(tr.encode()).hexdigest()[:12]
            if len(transcripts) < 40:
                transcripts[eis[0]] = tr[:1500]
        if lab.get("trig") and epi["cur"] is None:
            stats["nontrivial"] += 1
        if len(samples) < 3 and lab.get("trig"):
            samples.append({"path": [g.edges[i][1].get("a") for i in the_path(s)], "action": {k: v for k, v in lab.items() if k != "idx"},
                            "observed_runs": res["runs"]})
        frozen_ctx = ml.spec_state(g.states[s])["frozen"]
        # ---- exception class ---------------------------------------------------------------
        want = lab.get("exc", "none")
        got = res["excname"]
        okexc = (want == "none" and got is None) or (want == "ValueError" and got == "ValueError") or \
                (want == "Fault" and got == "Fault") or (want == "noneOrValueError" and got in (None, "ValueError"))
        xtag = None
        if lab["a"] == "Transfer":
            xtag = "C12" if lab["kind"].startswith("pickle") else "C11"
        elif lab["a"] == "GenFun":
            xtag = "C13"
        if not okexc and xtag:
            fail([xtag], f"{lab['a']}({lab.get('kind', lab.get('args'))}): raised {got}: {res['exc']!r}", eis[0], {"want": want, "got": got})
            return
        if not okexc:
            tags = ["C18"] if isfault else (["C17"] if (frozen_ctx or want == "ValueError") else ["C01", "C03"])
            if got not in (None, "ValueError", "Fault"):
                tags = sorted(set(tags + ["C03", "C01"]))
            fail(tags, f"{lab['a']}: expected outcome {want}, got {got}: {res['exc']!r}", eis[0], {"want": want, "got": got})
            return
        # ---- fault edges: pick the spec successor matching the observed prefix ---------------------------
        if isfault:
            cands = [(g.edges[ei][1], ml.spec_state(g.states[g.edges[ei][2]])) for ei in eis]
            runs = res["runs"]
            match = None
            for clab, cst in cands:
                exp_runs = list(clab["ran"]) + ([] if clab["failing"] == "write" else [clab["failing"]])
                if runs == exp_runs and not ml.state_diff(obs, cst):
                    match = clab
                    break
            if match is None:
                # classify
                clab, cst = cands[0]
                anyorder = any(runs == list(c["ran"]) + ([] if c["failing"] == "write" else [c["failing"]]) for c, _ in cands)
                diff = ml.state_diff(obs, cst)
                known = None
                if lab.get("cyc") and not anyorder and sorted(set(runs)) == sorted(runs) and set(runs) <= set(lab["trig"]):
                    known = "struct-cycle-order"
                fail(["C18"], f"fault at position {lab['k']} of {lab['a']}({lab['l']}): observed runs {runs} / state not one of the {len(cands)} spec successors"
                     , eis[0], {"runs": runs, "diff": repr(diff)[:600], "candidates": [c["ran"] for c, _ in cands]}, known)
            return
        exp = ml.spec_state(g.states[d])
        diff = ml.state_diff(obs, exp)
        if diff and _stale_refresh_only(w, diff, g, s, d):
            # a manager rebased one container level down triggers EVERY task on every assignment (each reads below the container that was
            # written into): locations the specification lists as stale (their task did not run after a fault / a load) are refreshed
            # there, which no property forbids; continue from the specification's state
            stats["rebased_stale_refresh"] += 1
            w.resync(exp["mem"], exp["kprev"])
            diff = []
        # ---- shadows: managers that must not be affected by what happens to this one (C12) --------------
        shbad = None
        for sw, snap in w.shadows:
            try:
                if ml.state_diff(ml.abs_state(sw), snap):
                    shbad = repr(ml.state_diff(ml.abs_state(sw), snap))[:400]
            except ml.Uncovered:
                pass
        if shbad:
            fail(["C12"], f"after {lab['a']}: the other side of an earlier pickle round trip changed: {shbad}", eis[0], {"diff": shbad})
            return
        # ---- C02: set, multiplicity, order --------------------------------------------------------------
        ordkind = None
        if lab["a"] == "GenFun":
            ordkind, why = _order_ok(res.get("gen_order", []), lab, extra_ok=w.uni["name"].endswith("/rebased"))
            if ordkind:
                fail(["C13"], f"mk_fun({lab['args']}): {why}", eis[0], {"src": res.get("gen_src")},
                     known="struct-cycle-order" if ((lab.get("cyc") or w.uni["name"].endswith("/rebased")) and ordkind == "order") else None)
        elif "trig" in lab:
            ordkind, why = _order_ok(res["runs"], lab, extra_ok=w.uni["name"].endswith("/rebased"))
            if ordkind == "set":
                fail(["C02"], f"{lab['a']}({lab['l']}): {why}", eis[0], {"runs": res["runs"], "trig": lab["trig"]})
            elif ordkind == "order":
                fail(["C02"], f"{lab['a']}({lab['l']}): {why}", eis[0], {"runs": res["runs"], "prec": lab["prec"]},
                     known="struct-cycle-order" if (lab.get("cyc") or w.uni["name"].endswith("/rebased")) else None)
        elif res["runs"] and lab["a"] != "Transfer" and not w.uni["name"].endswith("/rebased"):
            fail(["C02"], f"{lab['a']}: tasks ran ({res['runs']}) in a call that triggers none", eis[0], {"runs": res["runs"]})
        # ---- state ---------------------------------------------------------------------------------------
        if diff:
            comps = [c for c, _ in diff]
            tags = set()
            if "mem" in comps or "kprev" in comps:
                tags.add("C01")
                if frozen_ctx:
                    tags.add("C17")
            if "defs" in comps or "reg" in comps:
                tags.update(["C03", "C01"])
                if frozen_ctx:
                    tags.add("C17")
            if "frozen" in comps:
                tags.add("C17")
            # (a manager rebased one container level down has every pair of tasks in a structural cycle through that container)
            known = "struct-cycle-order" if ((lab.get("cyc") or w.uni["name"].endswith("/rebased")) and ordkind == "order" and comps == ["mem"]) else None
            if xtag:
                tags = {xtag}
            fail(sorted(tags), f"{lab['a']}({lab.get('l', lab.get('t', lab.get('kind', '')))}): state differs from the specification in {comps}: {repr(diff)[:300]}",
                 eis[0], {"diff": repr(diff)[:1500]}, known)
            return
        # ---- C13, the other side of the equivalence: the same arguments ASSIGNED THROUGH THE MANAGER, one after the other, on a second
        # world driven along the same path (the state may be stale there: after a fault, after load() / copy_expr_from registered definitions
        # without running them): both formulations must end in the specification's successor
        if lab["a"] == "GenFun" and epi["cur"] is None and not lab.get("cyc") and not w.uni["name"].endswith("/rebased"):
            w2 = go_to(s, eis[0])
            if w2 is not None and not w2.uni["name"].endswith("/rebased"):
                stats["genfun_vs_assignments"] += 1
                r2 = None
                for l_, v_ in zip(lab["args"], lab["vals"]):
                    r2 = ml.execute(w2, {"a": "SetValue", "l": l_, "v": v_})
                    if r2["exc"] is not None:
                        break
                if r2 is not None and r2["exc"] is not None:
                    fail(["C13", "C01"], f"GenFun({lab['args']}): the generated function returned normally, assigning the same values through the manager raised {r2['exc']!r}",
                         eis[0], {})
                    return
                try:
                    d2 = ml.state_diff(ml.abs_state(w2), ml.spec_state(g.states[d]))
                except ml.Uncovered:
                    d2 = None
                if d2:
                    fail(["C13", "C01"], f"GenFun({lab['args']}, {lab['vals']}): the generated function leaves the specification's successor, assigning the same values "
                         f"through the manager does not: {repr(d2)[:300]}", eis[0], {"diff": repr(d2)[:1500]})
                    return
        # ---- C03: queries ---------------------------------------------------------------------------------
        if queries and (epi["cur"] is None or isinstance(epi["cur"][1], dict)) and "idx" in lab and "rdeps" in lab["idx"]:
            stats["query_edges"] += 1
            try:
                oi = ml.abs_idx(w)
            except ml.Uncovered:
                stats["uncovered"] += 1
                return
            bad = []
            for name in ("rdeps", "deptasks", "tartasks", "rtasks"):
                e = {tuple(p) for p in lab["idx"][name]}
                if oi[name] != e:
                    bad.append((name, sorted(oi[name] - e), sorted(e - oi[name])))
            if bad:
                fail(["C03"] + (["C17"] if frozen_ctx else []), f"after {lab['a']}: index supports differ from the derived ones: {bad[:2]}", eis[0], {"bad": repr(bad)[:1500]})
                return
            # per-location queries
            qbad = []
            for l in uni["leaves"]:
                r = w.ref(l)
                ex = r._expr
                exd = exp["defs"][l]
                if (ex is None) != (exd["k"] == "none") or (ex is not None and ml.abs_expr(uni, ex) != exd):
                    qbad.append((l, "_expr"))
                tt = {ml.abs_tid(uni, t) for t in r._tasks}
                if tt != {t for x, t in oi["tartasks"] if x == l}:
                    qbad.append((l, "_tasks"))
                dt = {ml.abs_loc(uni, t) for t in r._find_dependant_targets()}
                if dt != _closure(lab["idx"]["rdeps"], l):
                    qbad.append((l, "_find_dependant_targets", sorted(dt), sorted(_closure(lab["idx"]["rdeps"], l))))
            try:
                w.m.verify()
            except Exception as ex:
                qbad.append(("verify", repr(ex)[:200]))
            if not frozen_ctx:
                # literal reading: a fresh manager in which only the surviving definitions are registered
                f = fresh()
                f.resync(obs["mem"])
                try:
                    for l in sorted(exp["defs"]):
                        if exp["defs"][l]["k"] != "none":
                            f.m.register(ml.xt.ExprTask(f.ref(l), f.build_expr(exp["defs"][l])))
                    for t in exp["reg"]:
                        f.m.register(f.make_task(t))
                    fi = ml.abs_idx(f)
                    for name in fi:
                        if fi[name] != oi[name]:
                            qbad.append(("fresh-manager", name, sorted(oi[name] ^ fi[name])))
                except Exception as ex:
                    qbad.append(("fresh-manager", repr(ex)[:200]))
            if qbad:
                fail(["C03"] + (["C17"] if frozen_ctx else []), f"after {lab['a']}: query answers differ: {qbad[:3]}", eis[0], {"qbad": repr(qbad)[:1500]})
                return
        # ---- C12: the original and its pickle round trip under further assignments spelled with equal keys of another type (the last thing done
        # with these two worlds: the probe changes them)
        if lab["a"] == "Transfer" and lab.get("kind", "").startswith("pickle") and epi["cur"] is None and w.shadows and not failed_now[0]:
            stats["alias_probes"] += 1
            orig, rest = (w.shadows[-1][0], w) if lab["kind"] == "pickle_copy" else (w, w.shadows[-1][0])
            why = ml.alias_probe(orig, rest)
            if why:
                fail(["C12"], f"{lab['kind']}: original and restored manager part ways under the same further assignments: {why}", eis[0], {"why": why})

    import random as _random
    erng = _random.Random(f"{job.get('seed', 0)}/{shard}/episodes")
    nep = job.get("episodes", 0)
    wanted_loops = set(job.get("loops", ()))
    nloops = job.get("nloops", 0)
    selfloops = collections.defaultdict(list)
    if nloops:
        seen_ = set()
        for s_, lab_, d_ in g.edges:
            if s_ == d_ and lab_.get("a") in ("Transfer", "Stutter") and lab_.get("exc", "none") == "none" and (s_, lab_.get("kind")) not in seen_:
                seen_.add((s_, lab_.get("kind")))
                selfloops[s_].append({k: v for k, v in lab_.items() if k in ("a", "kind")})
    # all-paths mode: the BFS tree reaches each state along ONE (shortest) path, but what a manager does may depend on how its state
    # came about (edges left behind by an earlier definition, caches, counters).  For the small universes every edge is also replayed
    # from every OTHER path of at most `allpaths` steps to its source (sampled down to `allpaths_cap` per edge).
    allpaths = job.get("allpaths", 0)
    inedges = collections.defaultdict(list)
    if allpaths:
        for i_, (s_, lab_, d_) in enumerate(g.edges):
            if s_ != d_ and lab_.get("exc", "none") in ("none", "Fault") and not lab_.get("cyc"):
                inedges[d_].append(i_)

    def alt_paths(src, bfs):
        out, cap = [], job.get("allpaths_cap", 60)

        def back(sid, suffix):
            if len(out) >= 4 * cap:
                return
            if sid == g.init and suffix:
                if suffix != bfs:
                    out.append(list(suffix))
            if len(suffix) >= allpaths:
                return
            for i_ in inedges.get(sid, ()):
                back(g.edges[i_][0], [i_] + suffix)
        back(src, [])
        if len(out) > cap:
            out = erng.sample(out, cap)
        return out

    for key in todo:
        epi["cur"] = None
        failed_now[0] = 0
        if g.walkpath:
            via[0] = g.walkpath.get(groups[key][0])
        process(key)
        via[0] = None
        if allpaths and not failed_now[0]:
            src_ = g.edges[groups[key][0]][0]
            for ap in alt_paths(src_, path_to(g, src_)):
                via[0] = ap
                stats["alt_path_replays"] += 1
                process(key)
                if failed_now[0]:
                    break
            via[0] = None
        if not (nep or nloops) or failed_now[0] or not isinstance(key[0], str) or g.walkpath:
            continue        # inserted calls only on plain (non-fault) edges that conformed without them
        ei = groups[key][0]
        src = g.edges[ei][0]
        path = path_to(g, src)
        sts = [g.edges[pi][0] for pi in path] + [src]
        cands = []
        if nep:
            for k, st in enumerate(sts):
                leaves = uni["leaves"] if st == g.init else g.ep.get(st, [])
                cands.extend((k, l) for l in leaves)
            erng.shuffle(cands)
            cands = cands if nep < 0 else cands[:nep]
        # self-loop actions of the specification at the source state (pickle round trip, refresh / cleanup / verify / clone ...),
        # inserted right before the edge: the BFS tree reaches each state along ONE path, a history-dependent defect needs the others
        loops = [l for l in selfloops.get(src, []) if l.get("kind") in wanted_loops]
        erng.shuffle(loops)
        cands += [(len(path), l) for l in loops[:nloops]]
        for c in cands:
            epi["cur"] = c
            process(key)
        epi["cur"] = None
    print(json.dumps({"fails": fails, "stats": dict(stats), "samples": samples, "digests": digests, "transcripts": transcripts}, default=str))


# ---------------------------------------------------------------------------------------------------------
# main-process side

def run_replay(g, universe, keys, scratch, mode, hashseeds, nshards, queries=True, timeout=3600, fan_keep=1.0, seed=0, episodes=0, digest=None, loops=(), nloops=0,
               allpaths=0, allpaths_cap=60):
    """-> (fails, stats, samples) aggregated over hash seeds and shards; digest: dict filled with {(mode, hashseed): {edge: transcript digest}}"""
    job = {"graph": g, "universe": universe, "keys": keys, "scratch": scratch, "mode": mode, "queries": queries,
           "fan_keep": fan_keep, "seed": seed, "episodes": episodes, "digest": digest is not None, "loops": list(loops), "nloops": nloops,
           "allpaths": allpaths, "allpaths_cap": allpaths_cap}
    fd, jobfile = tempfile.mkstemp(prefix="xdv-job-", suffix=".pickle")
    with os.fdopen(fd, "wb") as fh:
        pickle.dump(job, fh)
    try:
        # every worker loads the whole graph (measured: resident size about 11 x the pickle): launch them in waves that fit in memory
        todo = [(hs, sh) for hs in hashseeds for sh in range(nshards)]
        conc = max(2, min(len(todo), int(30e9 / max(1.0, 11.5 * os.path.getsize(jobfile)))))

        def launched():
            for i in range(0, len(todo), conc):
                wave = []
                for hs, sh in todo[i:i + conc]:
                    env = dict(os.environ, PYTHONHASHSEED=str(hs), PYTHONPATH=os.path.dirname(os.path.dirname(os.path.abspath(__file__))))
                    p = subprocess.Popen([PY, "-m", "harness.mgr_replay", "worker", jobfile, str(sh), str(nshards)],
                                         env=env, stdout=subprocess.PIPE, stderr=subprocess.PIPE, text=True,
                                         cwd=os.path.dirname(os.path.dirname(os.path.abspath(__file__))))
                    wave.append((hs, sh, p))
                yield from wave
        fails, stats, samples = [], collections.Counter(), []
        for hs, sh, p in launched():
            out, err = p.communicate(timeout=timeout)
            if p.returncode != 0:
                from .common import Machinery
                raise Machinery(f"replay worker (hashseed {hs}, shard {sh}) crashed:\n{err[-3000:]}")
            r = json.loads(out.strip().splitlines()[-1])
            for f in r["fails"]:
                f["hashseed"] = hs
                f["mode"] = mode
                fails.append(f)
            stats.update(r["stats"])
            samples.extend(r["samples"])
            if digest is not None:
                digest.setdefault((mode, hs), {}).update({int(k): v for k, v in r.get("digests", {}).items()})
                digest.setdefault("transcripts", {}).setdefault((mode, hs), {}).update({int(k): v for k, v in r.get("transcripts", {}).items()})
        return fails, stats, samples
    finally:
        os.remove(jobfile)


if __name__ == "__main__":
    if sys.argv[1] == "worker":
        worker_main(sys.argv[2], int(sys.argv[3]), int(sys.argv[4]))
