"""Generic state graph rebuilt from TLC's emitted JSON lines:
   ["ROOT", state]                      an initial state
   ["TR", src, label, dst, extra...]    one generated transition
States are interned by canonical JSON; BFS tree from the roots gives, for every edge, a path root -> source."""
import json, collections


class Graph:
    def __init__(self):
        self.states, self.index, self.edges, self.parent, self.roots = [], {}, [], {}, []
        self.other = collections.defaultdict(list)

    def intern(self, st):
        key = json.dumps(st, sort_keys=True)
        i = self.index.get(key)
        if i is None:
            i = len(self.states)
            self.index[key] = i
            self.states.append(st)
        return i

    def path_to(self, sid):
        p = []
        while sid in self.parent:
            i = self.parent[sid]
            p.append(i)
            sid = self.edges[i][0]
        p.reverse()
        return sid, p          # (root, edge indices)


def parse(path):
    g = Graph()
    roots = []
    with open(path) as fh:
        for line in fh:
            if not line.startswith('"[\\"'):
                continue
            v = json.loads(json.loads(line))
            if v[0] == "TR":
                g.edges.append((g.intern(v[1]), v[2], g.intern(v[3]), v[4:]))
            elif v[0] == "ROOT":
                r = g.intern(v[1])
                if r not in roots:
                    roots.append(r)
            else:
                g.other[v[0]].append(v[1:])
    g.roots = roots
    out = collections.defaultdict(list)
    for i, e in enumerate(g.edges):
        out[e[0]].append(i)
    seen = set(roots)
    q = collections.deque(roots)
    while q:
        s = q.popleft()
        for i in out[s]:
            d = g.edges[i][2]
            if d not in seen:
                seen.add(d)
                g.parent[d] = i
                q.append(d)
    return g
