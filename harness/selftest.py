"""./check selftest : demonstrates that the trace specifications are bound to what they check (a trace spec that accepted anything
would be vacuous): recorded traces of the unchanged code are accepted, and each targeted corruption of a recorded trace is rejected
with the expected clause."""
import copy, json, random
from . import build, par, mgr_trace, opt_engine
from .common import Machinery


def _first(tr, pred):
    for i, e in enumerate(tr["events"]):
        if pred(i, e):
            return i
    return None


def manager_cases(tr):
    out = []
    ev = tr["events"]
    # an update with >= 2 runs where the second reads what the first writes (a producer followed by its consumer)
    for i in range(len(ev) - 1):
        a, b = ev[i], ev[i + 1]
        if a["ev"] == "Run" and b["ev"] == "Run":
            ta, tb = tr["tasks"][a["t"] - 1], tr["tasks"][b["t"] - 1]
            if set(ta["writes"]) & set(tb["reads"]):
                t2 = copy.deepcopy(tr)
                t2["events"][i], t2["events"][i + 1] = t2["events"][i + 1], t2["events"][i]
                out.append(("two run events swapped (consumer before producer)", t2, "C02.producer-ran-after-its-consumer"))
                t3 = copy.deepcopy(tr)
                t3["events"].insert(i + 1, dict(a))
                out.append(("a run event duplicated", t3, "C02.task-ran-twice-in-one-update"))
                t4 = copy.deepcopy(tr)
                del t4["events"][i + 1]
                out.append(("a run event dropped", t4, "C02.triggered-task-did-not-run"))
                break
    i = _first(tr, lambda i, e: e["ev"] == "End" and e["out"] == "ok" and i > 3 and tr["events"][i - 1]["ev"] == "Run")
    if i is not None:
        t5 = copy.deepcopy(tr)
        t5["events"][i]["stale"] = [t5["events"][i - 1]["t"]]
        out.append(("a stale location reported at return", t5, "C01.expression-defined-location-is-stale"))
    i = _first(tr, lambda i, e: e["ev"] == "Idx" and e["rtasks"])
    if i is not None:
        t6 = copy.deepcopy(tr)
        t6["events"][i]["rtasks"] = t6["events"][i]["rtasks"][1:]
        out.append(("an edge removed from the recorded rtasks support", t6, "C03.rtasks-support-differs-from-derived"))
    return out


def optimizer_cases(tr):
    out = []
    for i, e in enumerate(tr["events"]):
        if e["ev"] == "Solve" and e["out"] == "ok" and e["rows"]:
            t = copy.deepcopy(tr)
            t["events"][i]["rows"][-1]["tol"] = False
            out.append(("the oracle says the point solve() returned on is not within tolerance", t, "C09.normal-return-means-matched"))
            break
    for i, e in enumerate(tr["events"]):
        jac = [j for j, r in enumerate(e.get("rows", [])) if r["kind"] == "jac"]
        if e["ev"] in ("Step", "Solve") and jac:
            t = copy.deepcopy(tr)
            t["events"][i]["rows"][jac[0]]["ratio"][0] = 1500000
            out.append(("a knob moved by 1.5 x max_step between two Jacobian rows", t, "C10.step-bounded-by-max_step"))
            t = copy.deepcopy(tr)
            t["events"][i]["rows"][jac[0]]["inlim"] = []
            t["events"][i]["start_inlim"] = True
            out.append(("an accepted point outside the limits", t, "C10.accepted-points-within-limits"))
            t = copy.deepcopy(tr)
            t["events"][i]["rows"][jac[0]]["penok"] = False
            out.append(("a logged penalty the oracle cannot reproduce", t, "C15.logged-rows-are-reproducible"))
            break
    for i, e in enumerate(tr["events"]):
        if e["ev"] == "Reload" and e["out"] == "ok":
            t = copy.deepcopy(tr)
            t["events"][i]["reload_ulp"] = 1000
            out.append(("reload left a knob 1000 ulp away from the row", t, "C15.reload-puts-the-row's-knobs-back"))
            break
    return out


def main():
    scratch = build.build("pure")
    ok = True
    # ---- manager traces --------------------------------------------------------------------------------------------
    fails, st, samples, extra = par.run_workers("harness.mgr_record", {"items": [("random", 1000 + i) for i in range(12)] + [("chain", 30)], "scratch": scratch, "mode": "pure"},
                                                4, collect=("traces",))
    traces = [t for key in sorted(extra["traces"]) for t in extra["traces"][key] if any(e["ev"] == "Begin" for e in t["events"])]
    verdicts, _ = mgr_trace.validate(traces)
    dirty = {i for i, b in verdicts.items() if [c for _, c in b if not c.startswith("KNOWN")]}
    print(f"manager: {len(traces)} recorded traces, {len(dirty)} with violated clauses (expected 0)")
    ok &= not dirty
    cases = []
    for t in traces:
        for c in manager_cases(t):
            if not any(x[0] == c[0] for x in cases):
                cases.append(c)
    vs, _ = mgr_trace.validate([c[1] for c in cases])
    for k, (what, _, clause) in enumerate(cases):
        hit = any(c == clause for _, c in vs[k])
        print(f"  corruption: {what:75s} -> {'rejected with ' + clause if hit else 'NOT REJECTED (clauses: ' + str(sorted({c for _, c in vs[k]})) + ')'}")
        ok &= hit
    ok &= len(cases) >= 4
    # ---- optimizer traces ------------------------------------------------------------------------------------------
    from . import opt_driver as od
    rnd = random.Random(5)
    seqs, _ = opt_engine.call_sequences(3)
    jobs = [(od.gen_problem(rnd, i), s, None) for i in range(40) for s in rnd.sample(seqs, 6)]
    fails, st, samples, extra = par.run_workers("harness.opt_driver", {"jobs": jobs, "scratch": scratch, "seed": 5}, 8, collect=("traces", "readables"))
    traces = [t for key in sorted(extra["traces"]) for t in extra["traces"][key]]
    verdicts, _ = opt_engine.validate(traces)
    dirty = {i for i, b in verdicts.items() if b}
    print(f"optimizer: {len(traces)} recorded traces, {len(dirty)} with violated clauses (expected 0)")
    ok &= not dirty
    cases = []
    for t in traces:
        for c in optimizer_cases(t):
            if not any(x[0] == c[0] for x in cases):
                cases.append(c)
    vs, _ = opt_engine.validate([c[1] for c in cases])
    for k, (what, _, clause) in enumerate(cases):
        hit = any(c == clause for _, c in vs[k])
        print(f"  corruption: {what:75s} -> {'rejected with ' + clause if hit else 'NOT REJECTED'}")
        ok &= hit
    ok &= len(cases) >= 4
    # ---- the protocol model: reachability probes (no vacuous invariant) and its trace binding ----------------------------
    reached = opt_engine.probes()
    print(f"OptProto.tla: {len(reached)} reachability probes reached: {', '.join(reached)}")
    from . import optproto
    rej, _ = optproto.validate(traces)
    print(f"OptProto.tla: {len(traces)} recorded traces, {len(rej)} rejected (expected 0)")
    ok &= not rej
    pcases = []
    for t in traces:
        for i, e in enumerate(t["events"]):
            if e["ev"] == "Step" and e["out"] == "ok" and len(e["rows"]) >= 3 and not any(c[0].startswith("a logged row dropped") for c in pcases):
                t2 = copy.deepcopy(t)
                del t2["events"][i]["rows"][1]
                t2["events"][i]["af"]["loglen"] -= 1
                for e2 in t2["events"][i + 1:]:
                    e2["af"]["loglen"] -= 1
                pcases.append(("a logged row dropped from a step (fewer rows than iterations, not within tolerance)", t2, i))
            if e["ev"] == "Step" and e["out"] == "ok" and e.get("dis_v") and not any(c[0].startswith("a temporarily") for c in pcases):
                t2 = copy.deepcopy(t)
                t2["events"][i]["af"]["vact"] = [k for k in t2["events"][i]["af"]["vact"] if k not in e["dis_v"]]
                pcases.append(("a temporarily disabled knob still inactive after step() returned", t2, i))
            if e["ev"] == "Reload" and e["out"] == "ok" and e["rows"] and t["env"]["npts"] >= 2 and not any(c[0].startswith("reload ends") for c in pcases):
                t2 = copy.deepcopy(t)
                other = 1 + (e["af"]["curn"] % t["env"]["npts"])
                t2["events"][i]["af"]["curn"] = other
                pcases.append(("reload ends on another point than the row's", t2, i))
            if e["ev"] == "Solve" and e["out"] == "ok" and not any(c[0].startswith("solve returned") for c in pcases):
                t2 = copy.deepcopy(t)
                t2["env"]["tolt"] = [[[] for _ in ep] for ep in t2["env"]["tolt"]]
                pcases.append(("solve returned normally although the oracle finds no point within tolerance", t2, i))
    prej, _ = optproto.validate([c[1] for c in pcases])
    for k, (what, _, i) in enumerate(pcases):
        hit = k in prej and prej[k][0] <= i
        print(f"  corruption: {what:95s} -> {'rejected at call ' + str(prej[k][0] + 1) if hit else 'NOT REJECTED'}")
        ok &= hit
    ok &= len(pcases) >= 3
    print("selftest", "passed" if ok else "FAILED")
    return 0 if ok else 2
