"""Engine for Paths.tla (C06), followed by the expression stage of Expr.tla."""
import collections, os
from . import tlc, build, graph, par
from .common import SPEC, Machinery, Verdict, seed, tier as get_tier

GEN = os.path.join(SPEC, "gen")
ITEMS = ["k1", "k2", "k3", "k4", "k5", "k6", "k7", "k8", "k9"]
ATTRS = ["a1", "a2", "a3"]


def explore(nitems, nattrs, maxlen, depth, dictpaths):
    os.makedirs(GEN, exist_ok=True)
    txt = open(os.path.join(SPEC, "Paths.cfg.tmpl")).read()
    sub = dict(ITEMS=",".join(f'"{k}"' for k in ITEMS[:nitems]), ATTRS=",".join(f'"{k}"' for k in ATTRS[:nattrs]), MAXLEN=maxlen, DEPTH=depth, DICT=dictpaths)
    for k, v in sub.items():
        txt = txt.replace(f"@{k}@", str(v))
    name = f"Paths_{nitems}_{nattrs}_{maxlen}_{depth}_{dictpaths}"
    cfg = os.path.join(GEN, name + ".cfg")
    open(cfg, "w").write(txt)
    out = os.path.join(GEN, f"{name}_{os.getpid()}.out")
    try:
        r = tlc.run("Paths.tla", cfg, workers=8, to_file=out, timeout=3000, heap="6g")
        if r.violation:
            raise Machinery("Paths.tla violates its own invariant:\n" + r.violation[:2000])
        g = graph.parse(out)
    finally:
        if os.path.exists(out):
            os.remove(out)
    return g, r


def family_check(scratch, n):
    """correctness shadow of the 'large families of similar keys' clause: n similar keys give n distinct dictionary entries, each found again"""
    import subprocess, sys, json
    code = f"""
import sys; sys.path.insert(0, {scratch!r})
import xdeps
m = xdeps.Manager(); s = m.ref({{}}, 's')
bad = []
for fam, mk in (('str', lambda i: f'k{{i}}'), ('int', lambda i: i), ('negint', lambda i: -i - 1), ('float', lambda i: i + 0.5), ('tuple', lambda i: ('k', i)), ('nested', lambda i: i)):
    d = {{}}
    for i in range({n}):
        r = s['x'][mk(i)] if fam == 'nested' else s[mk(i)]
        d[r] = i
    if len(d) != {n}: bad.append((fam, 'entries', len(d)))
    for i in range(0, {n}, 7):
        r = s['x'][mk(i)] if fam == 'nested' else s[mk(i)]
        if d.get(r) != i: bad.append((fam, 'lookup', i, d.get(r))); break
print(repr(bad))
"""
    p = subprocess.run(["/venv/bin/python", "-c", code], stdout=subprocess.PIPE, stderr=subprocess.PIPE, text=True)
    if p.returncode != 0:
        raise Machinery("family check crashed: " + p.stderr[-2000:])
    return eval(p.stdout.strip().splitlines()[-1])


def c06():
    from . import expr_engine as ee, props
    q = get_tier() == "quick"
    v = Verdict("C06", "exploration", get_tier(),
                "Paths.tla: every pair of access paths (2 labels x item/attr steps over 9 abstract item keys and 3 attribute names, length <= MaxLen) is compared on "
                "independently built references (same manager and a second manager): == / != / hash / dict lookup must follow path identity; the abstract keys are "
                "bound by 4 tables to strings with quotes, brackets, dots, unicode, text that looks like another path, ints, negative ints, non-integral floats, tuples; "
                "behaviours of a dictionary keyed by references (Put / Get / Del with every reference rebuilt at each use) must equal the dictionary keyed by paths. "
                "non-trivial = a pair of DIFFERENT paths, or a Get that must find an entry")
    scratch = build.build("compiled")
    plans = [(9, 3, 2, 1, "few"), (3, 2, 2, 3, "few")] if q else [(9, 3, 2, 1, "few"), (4, 2, 3, 1, "few"), (3, 2, 2, 4, "few"), (2, 1, 2, 3, "all")]
    stats = collections.Counter()
    cfgs = []
    tot_s = tot_t = 0
    for (ni, na, ml, dp, dk) in plans:
        g, r = explore(ni, na, ml, dp, dk)
        tot_s += len(g.states)
        tot_t += len(g.edges)
        for mode in (("compiled",) if q else ("compiled", "pure")):
            sc = scratch if mode == "compiled" else build.build("pure")
            fails, st, samples = par.run_workers("harness.paths_replay", {"graph": g, "scratch": sc, "mode": mode}, 12, hashseeds=(0, 1) if q else (0, 1, 2, 3))
            stats.update(st)
            for s in samples[:1]:
                v.sample(s)
            for f in fails:
                v.violation(f"[Paths.tla {mode} hashseed={f['hashseed']}] {f['summary']}", {"engine": "paths_replay", "path": f["path"], "detail": f["detail"]})
        cfgs.append({"item_keys": ni, "attr_keys": na, "max_len": ml, "dict_depth": dp, "dict_paths": dk, "tlc_generated": r.states, "tlc_distinct": r.distinct,
                     "emitted_transitions": len(g.edges)})
    n = 10000 if q else 100000
    bad = family_check(scratch, n)
    stats["family_keys"] = 6 * n
    if bad:
        v.violation(f"family of {n} similar keys: {bad}", {"engine": "paths_family", "bad": repr(bad)})
    v.add(stats["edges"])
    v.set(states=tot_s, transitions=tot_t, traces_validated_against_impl=stats["edges"], distinct_nontrivial=stats["nontrivial"], configurations=cfgs,
          replay_stats=dict(stats), exhaustive=True)
    v.assume("hash dispersion / performance of large key families is not decided here; only that n similar keys give n distinct, retrievable entries",
             "keys are those the property lists: strings of any content, ints, negative ints, non-integral floats, tuples (1 and 1.0 and True are one key to Python "
             "and are not mixed), attribute names are identifiers")
    v.cov["rule"] += " || second stage, Expr.tla: every expression TLC builds is built a second time independently (==, equal hash, same dict entry) and compared with the " \
                     "previous, different expression (!=)"
    return ee.run("C06", "exploration", "", props._expr_plans(q)[:2] if q else props._expr_plans(False), tags=["C06"], keys=("plain", "hostile"),
                  modes=("compiled",) if q else ("compiled", "pure"), hashseeds=(0,), verdict=v)
