"""Binding between Manager.tla and the real xdeps.Manager:

  * universes  : spec location string  <->  concrete access path (binding tables, several key concretisations)
  * World      : real containers (write-logging, fault-injecting) + Manager + refs, built from a spec state
  * absfun     : abs_loc / abs_expr / abs_state / abs_idx  (the ONLY projection implementation -> spec values)
  * execute    : perform one spec action label on the real objects, observing outcome and task runs

Imported after harness.build.use(mode) so that `xdeps` is the scratch copy of /repo's working tree.
"""
import math, operator
import numpy as _np

import xdeps
import xdeps.refs as xr
import xdeps.tasks as xt


class Fault(Exception):
    """Private exception class raised by fault-injecting containers (C18)."""


class FaultStop(StopIteration):
    """the same injected fault as an instance of a StopIteration subclass (an exception class iterator plumbing treats specially)"""


class FaultMulti(KeyError, IndexError, ValueError, TypeError, ZeroDivisionError, AssertionError, RuntimeError):
    """the same injected fault as an instance of the exception classes library code commonly catches for its own purposes (a cache miss, a missing
    key, a failed conversion): an `except KeyError:` around more than the lookup swallows a task's failure (C18: the exception propagates)"""

    def __str__(self):
        return Exception.__str__(self)


FLAVOURS = (Fault, FaultStop, FaultMulti)


class Uncovered(Exception):
    """Implementation object the projection has no spec counterpart for (reported, never a violation)."""


# ---------------------------------------------------------------------------------------------------------
# containers: user objects (not library code) that log writes and can raise on an armed write

class Ctl:
    def __init__(self):
        self.writes = []        # (loc-ish id, value) in order
        self.armed = False      # raise Fault on the next write
        self.fail_at_write = None   # absolute index of the write (within the current call) that fails
        self.stop_flavour = 0       # index into FLAVOURS: which exception class the injected fault is an instance of

    def on_write(self, where):
        idx = len(self.writes)
        if self.armed or (self.fail_at_write is not None and idx == self.fail_at_write):
            self.armed = False
            self.fail_at_write = None
            self.writes.append((where, "FAULT"))
            raise FLAVOURS[int(self.stop_flavour)](str(where))
        self.writes.append((where, None))


class LogDict(dict):
    __slots__ = ("_ctl", "_name")

    def __setitem__(self, k, v):
        self._ctl.on_write((self._name, k))
        dict.__setitem__(self, k, v)

    def __reduce__(self):
        return (dict, (dict(self),))


class LogList(list):
    __slots__ = ("_ctl", "_name")

    def __setitem__(self, k, v):
        self._ctl.on_write((self._name, k))
        list.__setitem__(self, k, v)

    def __reduce__(self):
        return (list, (list(self),))


class LogObj:
    def __init__(self, ctl, name):
        object.__setattr__(self, "_ctl", ctl)
        object.__setattr__(self, "_name", name)

    def __setattr__(self, k, v):
        self._ctl.on_write((self._name, k))
        object.__setattr__(self, k, v)


def _noop():
    """action of an observer task (module level, so that a manager holding it can be pickled).  An observer writes nothing, so an injected fault
    scheduled for "the first write of this task" is raised by the action itself (C18: "if a task, or the container write it performs, raises")"""
    w = _current.get("w")
    if w is not None and w.ctl.armed:
        w.ctl.on_write(("observer",))


class Funcs:
    """function container bound to label f"""
    @staticmethod
    def total(d):
        if isinstance(d, dict):
            return sum(d.values())
        if isinstance(d, (list, tuple)):
            return sum(d)
        return sum(v for k, v in vars(d).items() if not k.startswith("_"))


# ---------------------------------------------------------------------------------------------------------
# universes / binding tables.  A location maps to (label, ((kind, key), ...)).

def _mk(label, *steps):
    return (label, tuple(steps))


def universe(name, keys="plain"):
    """keys: 'plain' or 'hostile' (C06: keys that look like paths, quotes, unicode, ints, tuples, floats)."""
    K = {
        "plain":   {"a": "a", "b": "b", "c": "c", "d": "d", "n": "n", "x": "x", "y": "y", "z": "z", "i": "i"},
        "hostile": {"a": "s['b']", "b": "a']['b__c", "c": ("t", 1), "d": 1.5, "n": "n.x", "x": "é\"q", "y": -7, "z": "s", "i": "i j"},
        # keys as numpy hands them out (for i in np.arange(n): s['l'][i] = ...; names read from a numpy string array)
        "numpy":   {"a": _np.str_("a"), "b": _np.str_("b"), "c": _np.int64(3), "d": _np.str_("d"), "n": _np.str_("n"), "x": _np.str_("x"), "y": _np.int64(7),
                    "z": _np.str_("z"), "i": _np.str_("i")},
        # the manager's DEFAULT container (mgr.ref() without a container = xdeps.utils.AttrDict, whose attributes ARE its items): plain names; half of
        # the locations are assigned through attribute references and read back as items, the other half the other way round
        "attrdict": {"a": "a", "b": "b", "c": "c", "d": "d", "n": "n", "x": "x", "y": "y", "z": "z", "i": "i"},
    }[keys]
    LI = (lambda i: _np.int64(i)) if keys == "numpy" else (lambda i: i)
    if name in ("U1", "U4"):     # flat a, b + nested dict n{x,y}  (U4: same locations, small menu, explored deeper)
        loc = {"a": _mk("s", ("item", K["a"])), "b": _mk("s", ("item", K["b"])),
               "n": _mk("s", ("item", K["n"])),
               "n.x": _mk("s", ("item", K["n"]), ("item", K["x"])),
               "n.y": _mk("s", ("item", K["n"]), ("item", K["y"])),
               "f:total": _mk("f", ("attr", "total"))}
        leaves = ["a", "b", "n.x", "n.y"]
    elif name == "U2":   # a + attribute container e{p,q} + list l[0], l[1] + index i
        loc = {"a": _mk("s", ("item", K["a"])), "i": _mk("s", ("item", K["i"])),
               "e": _mk("s", ("item", "e")),
               "e.p": _mk("s", ("item", "e"), ("attr", "p")), "e.q": _mk("s", ("item", "e"), ("attr", "q")),
               "l": _mk("s", ("item", "l")),
               "l.0": _mk("s", ("item", "l"), ("item", LI(0))), "l.1": _mk("s", ("item", "l"), ("item", LI(1))),
               "f:total": _mk("f", ("attr", "total"))}
        leaves = ["a", "i", "e.p", "e.q", "l.0", "l.1"]
    elif name == "U3":   # flat a, b, c, d (diamonds, chains, function task, knob)
        loc = {k: _mk("s", ("item", K[k])) for k in "abcd"}
        loc["f:total"] = _mk("f", ("attr", "total"))
        leaves = list("abcd")
    elif name == "U5":   # flat a, b, c: b and c can read each other in either direction (narrowing + reversal histories, explored deep)
        loc = {k: _mk("s", ("item", K[k])) for k in "abc"}
        loc["f:total"] = _mk("f", ("attr", "total"))
        leaves = list("abc")
    elif name == "U6":   # five flat locations, sums over every pair: long random walks
        loc = {k: _mk("s", ("item", K[k])) for k in "abcdx"}
        loc["f:total"] = _mk("f", ("attr", "total"))
        leaves = list("abcdx")
    elif name == "U8":   # flat a, b, c with a linear knob (memory: the source value it saw last) next to pickling
        loc = {k: _mk("s", ("item", K[k])) for k in "abc"}
        loc["f:total"] = _mk("f", ("attr", "total"))
        leaves = list("abc")
    elif name == "U7":   # flat a, c, d with a NESTED update: the task N1 assigns d through the manager from inside its action
        loc = {k: _mk("s", ("item", K[k])) for k in "acd"}
        loc["f:total"] = _mk("f", ("attr", "total"))
        leaves = list("acd")
    else:
        raise KeyError(name)
    uni = {"name": name, "keys": keys, "loc": loc, "leaves": leaves, "label": "s"}
    if keys == "attrdict":
        if any(len(loc[l][1]) != 1 for l in leaves):
            raise KeyError("the attrdict binding is for flat universes")
        read = {}
        for i, l in enumerate(leaves):
            key = loc[l][1][0][1]
            if i % 2 == 0:
                loc[l], read[l] = _mk("s", ("attr", key)), _mk("s", ("item", key))
            else:
                read[l] = _mk("s", ("attr", key))
        uni["read"], uni["container"] = read, "attrdict"
    uni["inv"] = {v: k for k, v in loc.items()}
    return uni


def rebase(uni, label="t", prefix=(("item", "sub"),)):
    """the same universe with the data one level down in another container:  s[...] -> t['sub'][...]"""
    loc = {}
    for l, (lb, steps) in uni["loc"].items():
        loc[l] = (label, tuple(prefix) + steps) if lb == uni["label"] else (lb, steps)
    loc["__sub"] = (label, tuple(prefix))
    return {"name": uni["name"] + "/rebased", "keys": uni["keys"], "loc": loc, "leaves": uni["leaves"], "label": label,
            "inv": {v: k for k, v in loc.items()}}


# ---------------------------------------------------------------------------------------------------------
class World:
    """Real containers + manager for one universe, started from a spec `mem`."""

    def __init__(self, uni, mem, taskspec=None, manager=None):
        self.uni = uni
        self.ctl = Ctl()
        self.taskspec = taskspec or {}
        lab = uni["label"]
        if manager is None and uni.get("container") == "attrdict":
            self.m = xdeps.Manager()
            self.sref = self.m.ref(None, lab)           # the default container of Manager.ref()
            self.s = self.sref._owner
            for l in uni["leaves"]:
                self.s[uni["loc"][l][1][0][1]] = mem[l]
            self.fref = self.m.ref(Funcs, "f")
        elif manager is None:
            self.s = self._build_container(mem)
            self.m = xdeps.Manager()
            self.sref = self.m.ref(self.s, lab)
            self.fref = self.m.ref(Funcs, "f")
        else:                   # a manager obtained elsewhere (unpickled): adopt its containers
            self.m = manager
            self.sref = manager.containers[lab]
            self.fref = manager.containers["f"]
            self.s = self.sref._owner
        self.roots = {lab: self.sref, "f": self.fref}
        self.runs = []          # task ids in execution order (recorded by the Task.run wrappers)
        self.fault_at_run = None
        self.shadows = []       # (world, expected abs_state): managers that must stay as they were (C12 independence)

    # -- containers ------------------------------------------------------------------------
    def _new(self, kind, name):
        if kind == "dict":
            c = LogDict()
        elif kind == "list":
            c = LogList()
        else:
            return LogObj(self.ctl, name)
        c._ctl, c._name = self.ctl, name
        return c

    def _build_container(self, mem):
        root = self._new("dict", self.uni["label"])
        # inner containers first
        inner = {}
        for l, (label, steps) in self.uni["loc"].items():
            if label != self.uni["label"] or l in self.uni["leaves"]:
                continue
            childkinds = {st[len(steps)] for ll, (lb, st) in self.uni["loc"].items()
                          if lb == self.uni["label"] and len(st) == len(steps) + 1 and st[:len(steps)] == steps}
            kinds = {k for k, _ in childkinds}
            if kinds == {"attr"}:
                c = self._new("obj", l)
            elif all(isinstance(key, (int, _np.integer)) and key >= 0 for _, key in childkinds):
                c = self._new("list", l)
                list.extend(c, [None] * (1 + max(key for _, key in childkinds)))
            else:
                c = self._new("dict", l)
            inner[l] = c
        for l in sorted(inner, key=lambda x: len(self.uni["loc"][x][1])):
            self._raw_set(root, self.uni["loc"][l][1], inner[l])
        for l in self.uni["leaves"]:
            self._raw_set(root, self.uni["loc"][l][1], mem[l])
        return root

    @staticmethod
    def _raw_set(root, steps, v):
        o = root
        for kind, key in steps[:-1]:
            o = getattr(o, key) if kind == "attr" else o[key]
        kind, key = steps[-1]
        if kind == "attr":
            object.__setattr__(o, key, v)
        elif isinstance(o, dict):
            dict.__setitem__(o, key, v)
        else:
            list.__setitem__(o, key, v)

    def raw_get(self, l):
        label, steps = self.uni.get("read", self.uni["loc"])[l]       # (the attrdict binding reads through the OTHER view of the container)
        o = self.s
        for kind, key in steps:
            o = getattr(o, key) if kind == "attr" else o[key]
        return o

    def read_mem(self):
        return {l: self.raw_get(l) for l in self.uni["leaves"]}

    def resync(self, mem, kprev=None):
        for l in self.uni["leaves"]:
            self._raw_set(self.s, self.uni["loc"][l][1], mem[l])
        if kprev:
            for tid, v in kprev.items():
                t = self.m.tasks.get(tid)
                if t is not None and hasattr(t, "prev_value"):
                    t.prev_value = v

    # -- refs --------------------------------------------------------------------------------
    def ref(self, l):
        label, steps = self.uni["loc"][l]
        r = self.roots[label]
        for kind, key in steps:
            r = getattr(r, key) if kind == "attr" else r[key]
        return r

    def owner_key(self, l):
        label, steps = self.uni["loc"][l]
        r = self.roots[label]
        for kind, key in steps[:-1]:
            r = getattr(r, key) if kind == "attr" else r[key]
        return r, steps[-1]

    def build_expr(self, e):
        k = e["k"]
        if k == "ref":
            return self.ref(e["l"])
        if k == "lit":
            return e["v"]
        if k == "bin":
            a, b = self.build_expr(e["a"]), self.build_expr(e["b"])
            op = {"+": operator.add, "-": operator.sub, "*": operator.mul}[e["op"]]
            if not isinstance(a, xr.BaseRef) and not isinstance(b, xr.BaseRef):
                a = xr.LiteralExpr(a)
            return op(a, b)
        if k == "neg":
            return -self.build_expr(e["a"])
        if k == "tot":
            return self.fref.total(self.ref(e["c"]))
        if k == "rnd":
            return round(self.build_expr(e["a"]), self.build_expr(e["p"]))
        if k == "dyn":
            return self.ref(e["o"])[self.build_expr(e["key"])]
        raise KeyError(k)

    def taskid(self, t):
        return self.ref(t) if t in self.uni["loc"] else t

    def make_task(self, t):
        sp = self.taskspec[t]
        if sp["kind"] == "obs":
            return xt.FunctionTask(t, _noop, set(), {self.ref(x) for x in sp["deps"]})
        if sp["kind"] == "fn":
            i1, i2 = sp["ins"]
            out = sp["out"]
            w = self

            def action():
                w._raw_write_logged(out, w.raw_get(i1) + w.raw_get(i2))
            return xt.FunctionTask(t, action, {self.ref(x) for x in sp["targets"]}, {self.ref(x) for x in sp["deps"]})
        if sp["kind"] == "nest":
            # a nested update: the action assigns THROUGH THE MANAGER (ref[key] = value -> Manager.set_value) while the outer set_value is running
            i1, i2 = sp["ins"]
            nout = sp["nout"]
            w = self

            def action():
                _assign(w, nout, w.raw_get(i1) + w.raw_get(i2))
            return xt.FunctionTask(t, action, set(), {self.ref(x) for x in sp["deps"]})
        return xt.LinearKnob(t, self.ref(sp["src"]), list(sp["w"]), [self.ref(x) for x in sp["tl"]])

    def _raw_write_logged(self, l, v):
        label, steps = self.uni["loc"][l]
        o = self.s
        for kind, key in steps[:-1]:
            o = getattr(o, key) if kind == "attr" else o[key]
        kind, key = steps[-1]
        if kind == "attr":
            setattr(o, key, v)
        else:
            o[key] = v


# ---------------------------------------------------------------------------------------------------------
# projection implementation -> spec values

_BIN = {"AddExpr": "+", "SubExpr": "-", "MulExpr": "*"}


def abs_loc(uni, r):
    steps = []
    o = r
    while isinstance(o, (xr.ItemRef, xr.AttrRef)):
        kind = "attr" if isinstance(o, xr.AttrRef) else "item"
        steps.append((kind, o._key))
        o = o._owner
    if not isinstance(o, xr.Ref):
        raise Uncovered(f"reference rooted at {type(o).__name__}")
    steps.reverse()
    # computed key anywhere in the path -> symbolic location of its innermost occurrence (only last step supported)
    if steps and isinstance(steps[-1][1], xr.BaseRef):
        owner = abs_loc(uni, r._owner)
        key = steps[-1][1]
        return owner + ".[" + (abs_loc(uni, key) if isinstance(key, xr.MutableRef) else "expr") + "]"
    try:
        return uni["inv"][(o._key, tuple(steps))]
    except (KeyError, TypeError):
        raise Uncovered(f"location {r!r} not in binding table")


def abs_expr(uni, e):
    if not isinstance(e, xr.BaseRef):
        if isinstance(e, bool) or not isinstance(e, int):
            raise Uncovered(f"literal {e!r}")
        return {"k": "lit", "v": e}
    cn = type(e).__name__
    if cn in ("ItemRef", "AttrRef"):
        if isinstance(e._key, xr.BaseRef):
            return {"k": "dyn", "o": abs_loc(uni, e._owner), "key": abs_expr(uni, e._key)}
        return {"k": "ref", "l": abs_loc(uni, e)}
    if cn in _BIN:
        return {"k": "bin", "op": _BIN[cn], "a": abs_expr(uni, e._lhs), "b": abs_expr(uni, e._rhs)}
    if cn == "NegExpr":
        return {"k": "neg", "a": abs_expr(uni, e._arg)}
    if cn == "LiteralExpr":
        return abs_expr(uni, e._arg)
    if cn == "CallRef":
        f = e._func
        if isinstance(f, xr.AttrRef) and abs_loc(uni, f) == "f:total" and len(e._args) == 1 and not e._kwargs:
            return {"k": "tot", "c": abs_loc(uni, e._args[0])}
        raise Uncovered(f"call {e!r}")
    if cn == "BuiltinRef":
        import builtins
        if e._op is builtins.round and len(e._params) == 1:
            return {"k": "rnd", "a": abs_expr(uni, e._arg), "p": abs_expr(uni, e._params[0])}
        raise Uncovered(f"builtin {e!r}")
    raise Uncovered(f"node class {cn}")


def abs_tid(uni, t):
    return abs_loc(uni, t) if isinstance(t, xr.BaseRef) else t


def abs_state(w):
    """-> dict(mem, defs, reg, kprev, frozen) in the JSON shape TLC emits"""
    uni = w.uni
    defs = {l: {"k": "none"} for l in uni["leaves"]}
    reg, kprev = [], {}
    for tid, task in w.m.tasks.items():
        if isinstance(task, xt.ExprTask):
            defs[abs_loc(uni, tid)] = abs_expr(uni, task.expr)
        else:
            reg.append(tid)
            if isinstance(task, xt.LinearKnob):
                kprev[tid] = task.prev_value
    return {"mem": w.read_mem(), "defs": defs, "reg": sorted(reg), "kprev": kprev, "frozen": bool(w.m._tree_frozen)}


def abs_idx(w):
    """supports (keys with non-empty entries) of the four indices, as sets of pairs of spec names"""
    uni, m = w.uni, w.m
    out = {}
    for name, keyf, valf in (("rdeps", abs_loc, abs_loc), ("deptasks", abs_loc, abs_tid),
                             ("tartasks", abs_loc, abs_tid), ("rtasks", abs_tid, abs_tid)):
        s = set()
        for k, rc in getattr(m, name).items():
            for v, cnt in rc.items():
                if cnt > 0:
                    a, b = keyf(uni, k), valf(uni, v)
                    if a != "__sub" and b != "__sub":        # the extra enclosing container of a rebased universe
                        s.add((a, b))
        out[name] = s
    return out


def spec_state(st):
    """TLC JSON state [mem, defs, reg, kprev, frozen, ghost] -> dict"""
    mem, defs, reg, kprev, frozen, ghost = st
    return {"mem": mem, "defs": defs, "reg": sorted(reg), "kprev": kprev, "frozen": frozen, "ghost": sorted(ghost)}


def state_diff(obs, exp):
    """list of (component, detail) where the observed projection differs from the spec state"""
    out = []
    if obs["mem"] != exp["mem"]:
        d = {l: (obs["mem"].get(l), exp["mem"].get(l)) for l in exp["mem"] if obs["mem"].get(l) != exp["mem"].get(l)
             or type(obs["mem"].get(l)) is not type(exp["mem"].get(l))}
        out.append(("mem", d))
    else:
        d = {l: (obs["mem"][l], exp["mem"][l]) for l in exp["mem"] if type(obs["mem"][l]) is not type(exp["mem"][l])}
        if d:
            out.append(("mem", d))
    if obs["defs"] != exp["defs"]:
        out.append(("defs", {l: (obs["defs"].get(l), exp["defs"].get(l)) for l in exp["defs"] if obs["defs"].get(l) != exp["defs"].get(l)}))
    if obs["reg"] != exp["reg"]:
        out.append(("reg", (obs["reg"], exp["reg"])))
    for t in obs["reg"]:
        if t in obs["kprev"] and obs["kprev"][t] != exp["kprev"].get(t):
            out.append(("kprev", (t, obs["kprev"][t], exp["kprev"].get(t))))
    if obs["frozen"] != exp["frozen"]:
        out.append(("frozen", (obs["frozen"], exp["frozen"])))
    return out


# ---------------------------------------------------------------------------------------------------------
# run recording: harness-side wrappers of the three task classes' run methods (no source patch)

_current = {"w": None}
_installed = []


def install_run_wrappers():
    if _installed:
        return
    for cls in (xt.ExprTask, xt.FunctionTask, xt.LinearKnob):
        orig = cls.run

        def run(self, _orig=orig):
            w = _current["w"]
            if w is not None:
                w.runs.append(self.taskid)
                if w.fault_at_run is not None and len(w.runs) == w.fault_at_run:
                    w.ctl.armed = True
            return _orig(self)
        cls.run = run
        _installed.append(cls)


_IOPS = {"+": operator.iadd, "-": operator.isub, "*": operator.imul}


def _assign(w, l, value):
    owner, (kind, key) = w.owner_key(l)
    if kind == "attr":
        setattr(owner, key, value)
    else:
        owner[key] = value


def execute(w, lab, fault=None):
    """Perform the action of spec label `lab` on world w.
    fault: None or k (0 = the write of the assigned location itself, k>=1 = first write of the k-th task run).
    -> dict(exc=<class name or None>, runs=[spec task ids], writes=[...])"""
    install_run_wrappers()
    a = lab["a"]
    w.runs = []
    w.ctl.writes = []
    w.ctl.armed = False
    w.ctl.fail_at_write = None
    w.fault_at_run = None
    if fault is not None:
        if fault == 0:
            w.ctl.fail_at_write = 0
        else:
            w.fault_at_run = fault
    exc = None
    extra = {}
    _current["w"] = w
    try:
        if a == "SetValue":
            _assign(w, lab["l"], lab["v"])
        elif a == "SetExpr":
            _assign(w, lab["l"], w.build_expr(lab["e"]))
        elif a == "InPlace":
            owner, (kind, key) = w.owner_key(lab["l"])
            r = getattr(owner, key) if kind == "attr" else owner[key]
            r = _IOPS[lab["op"]](r, lab["x"])
            if kind == "attr":
                setattr(owner, key, r)
            else:
                owner[key] = r
        elif a == "Unregister":
            w.m.unregister(w.taskid(lab["t"]))
        elif a == "RegisterTask":
            w.m.register(w.make_task(lab["t"]))
        elif a == "Load":
            # the entries as text, as dump() would print them (C11: the printed forms are faithful)
            w.m.load([(str(w.ref(l_)), str(w.build_expr(e_))) for l_, e_ in lab["sq"]], overwrite=bool(lab["ow"]))
        elif a == "Freeze":
            w.m.freeze_tree()
        elif a == "Unfreeze":
            w.m.unfreeze_tree()
        elif a == "Stutter":
            kind = lab["kind"]
            if kind == "refresh":
                w.m.refresh()
            elif kind == "cleanup":
                w.m.cleanup()
            elif kind == "verify":
                w.m.verify()
            elif kind == "clone":
                c = w.m.clone()
                # adopt the regenerated indices: from here on the world runs on what clone() built
                w.m.tasks, w.m.rdeps, w.m.rtasks, w.m.deptasks, w.m.tartasks = c.tasks, c.rdeps, c.rtasks, c.deptasks, c.tartasks
        elif a == "Transfer":
            extra["world"] = transfer(w, lab)
        elif a == "GenFun":
            extra.update(gen_fun(w, lab))
        else:
            raise KeyError(a)
    except Exception as ex:        # noqa: every exception class is an observation
        exc = ex
    finally:
        _current["w"] = None
        w.ctl.armed = False
        w.ctl.fail_at_write = None
        w.fault_at_run = None
    runs = []
    for t in w.runs:
        try:
            runs.append(abs_tid(w.uni, t))
        except Uncovered:
            runs.append(repr(t))
    if isinstance(exc, (FaultStop, FaultMulti)):
        return {"exc": exc, "excname": "Fault", "runs": runs, "writes": list(w.ctl.writes), **extra}
    return {"exc": exc, "excname": type(exc).__name__ if exc is not None else None, "runs": runs, "writes": list(w.ctl.writes), **extra}


def alias_probe(w1, w2):
    """DESTRUCTIVE (the two worlds are thrown away afterwards): the same further assignments on the original and on its pickle round trip, spelling
    each top-level key with a value that is EQUAL to the one used so far but of another type (np.str_('a') for 'a', 1.0 for 1, ...): whatever
    a manager makes of such a spelling, the restored one must make the same of it ("the same container contents as the original under any
    further sequence of assignments").  -> None or a description of the first difference"""
    def alias(k):
        if isinstance(k, (bool, _np.generic)):
            return None
        if isinstance(k, str):
            return _np.str_(k)
        if isinstance(k, int):
            return float(k)
        if isinstance(k, float):
            return int(k) if k == int(k) else _np.float64(k)
        return None

    def snap(w):
        try:
            d = sorted(map(str, w.m.dump()))
        except Exception as ex:
            d = "dump raised " + type(ex).__name__
        return {l: repr(w.raw_get(l)) for l in w.uni["leaves"]}, d

    def both(f, what):
        outs = []
        for w in (w1, w2):
            try:
                f(w)
                exc = None
            except Exception as ex:          # noqa
                exc = type(ex).__name__
            outs.append((exc, snap(w)))
        if outs[0] != outs[1]:
            return f"after {what}: original -> {outs[0]!r:.400}, restored -> {outs[1]!r:.400}"
        return None

    lab = w1.uni["label"]
    if w1.uni["name"].endswith("/rebased") or w2.uni["name"].endswith("/rebased"):
        return None
    slots = []
    for l, (lb, path) in sorted(w1.uni["loc"].items()):
        if lb == lab and len(path) == 1 and path[0][0] == "item" and l in w1.uni["leaves"]:
            ak = alias(path[0][1])
            if ak is not None:
                slots.append((l, path[0][1], ak))
    for l, k, ak in slots:
        def f(w, k=k, ak=ak):
            cur = w.s[k]
            w.sref[ak] = (cur + 1) if isinstance(cur, (int, float)) and not isinstance(cur, bool) else 5
        why = both(f, f"{lab}[{ak!r}] = <value + 1>   (the slot spelled {k!r} so far)")
        if why:
            return why
    for l, k, ak in slots:                                  # ... and then the ordinary spelling again: the dependants follow (or not) alike
        def f2(w, k=k):
            cur = w.s[k]
            w.sref[k] = (cur + 2) if isinstance(cur, (int, float)) and not isinstance(cur, bool) else 6
        why = both(f2, f"{lab}[{k!r}] = <value + 2>   (after the equal-key assignments)")
        if why:
            return why
    return None


def transfer(w, lab):
    """-> the world the behaviour continues in"""
    import pickle
    kind = lab["kind"]
    if kind in ("pickle_copy", "pickle_orig"):
        m2 = pickle.loads(pickle.dumps(w.m))
        w2 = World(w.uni, None, w.taskspec, manager=m2)
        m2.verify()
        snap = abs_state(w)
        if kind == "pickle_copy":
            w2.shadows = w.shadows + [(w, snap)]
            return w2
        w.shadows = w.shadows + [(w2, snap)]
        return w
    if kind == "dumpload":
        w2 = World(w.uni, w.read_mem(), w.taskspec)
        w2.m.load(w.m.dump())
    elif kind == "copy_plain":
        if not w.uni["name"].endswith("/rebased"):
            _rider_check(w)
        w2 = World(w.uni, w.read_mem(), w.taskspec)
        w2.m.copy_expr_from(w.m, w.uni["label"])
    elif kind == "copy_bind":
        if w.uni["name"].endswith("/rebased"):      # already one level down: same shape on the other side, the label is bound to the new container ref
            w2 = World(w.uni, w.read_mem(), w.taskspec)
            w2.m.copy_expr_from(w.m, w.uni["label"], bindings={w.sref: w2.sref})
        else:
            u2 = rebase(w.uni)
            w2 = World(u2, w.read_mem(), w.taskspec)
            w2.m.copy_expr_from(w.m, w.uni["label"], bindings={w.sref: w2.sref["sub"]})
    elif kind == "copy_keep":
        w2 = World(w.uni, w.read_mem(), w.taskspec)
        _assign(w2, lab["keeploc"], w2.build_expr(lab["keepexpr"]))
        w2.m.copy_expr_from(w.m, w.uni["label"], overwrite=False)
    elif kind == "copy_bind_keep":
        if not w.uni["name"].endswith("/rebased"):
            _decoy_check(w)
        reb = w.uni["name"].endswith("/rebased")
        w2 = World(w.uni if reb else rebase(w.uni), w.read_mem(), w.taskspec)
        _assign(w2, lab["keeploc"], w2.build_expr(lab["keepexpr"]))
        w2.m.copy_expr_from(w.m, w.uni["label"], bindings={w.sref: (w2.sref if reb else w2.sref["sub"])}, overwrite=False)
    else:
        raise KeyError(kind)
    # the bindings of a copy are arguments of that one call: the destination manager's own label table must be what it was (a rebinding that stays behind
    # makes every later load / copy_expr_from on that manager resolve the label to the rebound place)
    want_labels = {"f": w2.fref, w2.uni["label"]: w2.sref}
    for lb in sorted(set(want_labels) | set(w2.m.containers)):
        if w2.m.containers.get(lb) is not want_labels.get(lb):
            raise DecoyMismatch(f"after {kind} the destination manager's label table is {dict(w2.m.containers)!r}: label {lb!r} "
                                + ("no longer names its container" if lb in want_labels else "was added by the call"))
    w2.shadows = list(w.shadows)
    return w2


class DecoyMismatch(Exception):
    pass


def _decoy_check(w):
    """copy_expr_from with a rebinding and overwrite=False into a manager that uses the SAME label, holds the data one level down
    (s['sub'][...]) and, at top level, unrelated locations with the same printed names as the source's targets, each defined by
    its own expression.  Rebound targets do not exist yet, so EVERY source definition must arrive under s['sub'], and the
    unrelated top-level definitions must stay as they are."""
    uni = w.uni
    flat = [l for l in uni["leaves"] if len(uni["loc"][l][1]) == 1 and uni["loc"][l][0] == uni["label"]]
    if len(flat) < 2:
        return
    u2 = rebase(uni, label=uni["label"])
    w2 = World(u2, w.read_mem(), w.taskspec)
    for l in flat:                                   # decoy data and definitions at top level
        dict.__setitem__(w2.s, uni["loc"][l][1][0][1], 1000)
    k0 = uni["loc"][flat[0]][1][0][1]
    decoys = {}
    for l in flat[1:]:
        k = uni["loc"][l][1][0][1]
        w2.sref[k] = w2.sref[k0] + 100
        decoys[k] = repr(w2.sref[k]._expr)
    w2.m.copy_expr_from(w.m, uni["label"], bindings={w.sref: w2.sref["sub"]}, overwrite=False)
    want = {l: abs_expr(uni, t.expr) for tid, t in w.m.tasks.items() if isinstance(t, xt.ExprTask) for l in [abs_loc(uni, tid)]}
    got = {}
    for tid, t in w2.m.tasks.items():
        if not isinstance(t, xt.ExprTask):
            continue
        try:
            got[abs_loc(u2, tid)] = abs_expr(u2, t.expr)
        except Uncovered:
            pass                                     # the decoys live outside the rebased universe
    if got != want:
        miss = sorted(set(want) - set(got))
        raise DecoyMismatch(f"rebinding copy with overwrite=False into a manager that defines unrelated locations printing like the source's targets: "
                            f"definitions under the new container are {sorted(got)}, the source defines {sorted(want)} (missing {miss})")
    for k, txt in decoys.items():
        ex = w2.sref[k]._expr
        if ex is None or repr(ex) != txt:
            raise DecoyMismatch(f"the unrelated existing definition of {w2.sref[k]!r} was changed by the copy: {txt} -> {ex!r}")


def _rider_check(w):
    """copy_expr_from of a container whose definitions include, next to the ones of the specification's universe, definitions over further
    locations of the SAME container that involve a SECOND container: a target whose key is computed from the other container, a target whose
    key is computed from the same container, a right-hand side reading the other container.  Every definition rooted in the copied
    container must arrive (same printed target, same printed expression), and both managers must react alike to a later assignment."""
    uni = w.uni
    lab = uni["label"]

    def mk():
        x = World(uni, w.read_mem(), w.taskspec)
        x.m.copy_expr_from(w.m, lab)
        dict.__setitem__(x.s, "_arr", [0.0, 0.0, 0.0])
        dict.__setitem__(x.s, "_p", 3.0)
        dict.__setitem__(x.s, "_k", 2)
        dict.__setitem__(x.s, "_q", 0.0)
        x.cfg = {"i": 1, "p": 2.0}
        x.cfgref = x.m.ref(x.cfg, "cfg")
        return x
    if not isinstance(w.s, dict):
        return
    src, dst = mk(), mk()
    src.sref["_arr"][src.cfgref["i"]] = src.sref["_p"] * 2          # target key computed from ANOTHER container
    src.sref["_arr"][src.sref["_k"]] = src.sref["_p"] + 1           # target key computed from the same container
    src.sref["_q"] = src.cfgref["p"] + src.sref["_p"]               # right-hand side reading the other container
    dst.m.copy_expr_from(src.m, lab)

    def defs(x):
        return sorted((str(t.taskid), str(t.expr)) for t in x.m.tasks.values() if isinstance(t, xt.ExprTask) and str(t.taskid).startswith(lab + "["))
    a, b = defs(src), defs(dst)
    if a != b:
        raise DecoyMismatch(f"copy_expr_from({lab!r}) of a container holding definitions that involve a second container: the source defines "
                            f"{[x for x in a if x not in b]} which the copy lacks (extra in the copy: {[x for x in b if x not in a]})")
    for x in (src, dst):
        x.sref["_p"] = 10.0
    ca = {k: repr(dict.__getitem__(src.s, k)) for k in ("_arr", "_p", "_q")}
    cb = {k: repr(dict.__getitem__(dst.s, k)) for k in ("_arr", "_p", "_q")}
    if ca != cb:
        raise DecoyMismatch(f"after copy_expr_from({lab!r}) and the same assignment {lab}['_p'] = 10.0 on both managers: source container {ca}, copy {cb}")


def gen_fun(w, lab):
    """C13: build the setter for the argument references, check its source, call it."""
    kwargs = {f"p{i}": w.ref(l) for i, l in enumerate(lab["args"])}
    src = w.m.mk_fun("gf", **kwargs)
    fun = w.m.gen_fun("gf", **kwargs)
    lines = [ln.strip() for ln in src.splitlines()[1:]]
    nargs = len(lab["args"])
    order = []
    ns = dict(w.roots)
    for ln in lines[nargs:]:
        lhs = ln.split(" = ", 1)[0]
        order.append(abs_loc(w.uni, eval(lhs, {}, ns)))
    fun(*lab["vals"])
    return {"gen_order": order, "gen_src": src}

