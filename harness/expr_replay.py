"""Direction A for Expr.tla: every transition TLC generated is replayed on real xdeps reference objects.

The graph (TR / ST lines keyed by fingerprint triples) is rebuilt by expr_engine; a worker replays, for each edge,
the BFS path to its source followed by the edge and then checks, at the target state:

  C04  structure of the built object == spec AST (reflected forms, in-place mapping), _get_value() == spec value (type and
       value; NaN where the spec says NaN; exception class where it says Raise), == CPython on the mirrored term;
       the same tree over complex / numpy operands against the mirrored term; contents / definitions after
       Assign / InPlace / SetEnv
  C05  _get_dependencies() is a set and projects to the spec's Locs
  C11  eval(str(e)) in a namespace binding the container labels rebuilds the same AST, ==, same hash, same value
  C12  pickle round trip of the expression: same AST, same value
  C06  the same AST built a second time independently: ==, equal hashes; the previous (different) AST: !=
  C20  a digest of everything observed, compared across build modes / hash seeds by the engine
"""
import builtins, collections, hashlib, json, math, operator, pickle, warnings

import numpy as np

OPS = {"+": operator.add, "-": operator.sub, "*": operator.mul, "@": operator.matmul, "/": operator.truediv,
       "//": operator.floordiv, "%": operator.mod, "**": operator.pow, "&": operator.and_, "|": operator.or_,
       "^": operator.xor, "<": operator.lt, "<=": operator.le, ">": operator.gt, ">=": operator.ge,
       "==": operator.eq, "!=": operator.ne, ">>": operator.rshift, "<<": operator.lshift}
IOPS = {"+": operator.iadd, "-": operator.isub, "*": operator.imul, "@": operator.imatmul, "/": operator.itruediv,
        "//": operator.ifloordiv, "%": operator.imod, "**": operator.ipow, "&": operator.iand, "|": operator.ior,
        "^": operator.ixor, ">>": operator.irshift, "<<": operator.ilshift}
UNOPS = {"-": operator.neg, "+": operator.pos, "~": operator.invert}
BIS = {"abs": builtins.abs, "round": builtins.round, "divmod": builtins.divmod, "trunc": math.trunc,
       "floor": math.floor, "ceil": math.ceil}
GUARDED = ("/", "//", "%")


class Machinery(Exception):
    pass


class Funcs:
    @staticmethod
    def lin(x, y=0, k=1):
        return x + 2 * y + 3 * k


class Obj:
    pass


KEYS = {
    "plain":   {"a": "a", "b": "b", "i": "i", "t1": "t1", "t2": "t2", "e": "e", "l": "l", "g": "g"},
    "hostile": {"a": "s['b__c']", "b": "a']['b", "i": ("t", 1), "t1": 1.5, "t2": "é\"q", "e": "s", "l": -7, "g": "s['l']"},
    # the two list slots addressed from the end: s['l'][-2], s['l'][-1]  (hash(-1) == hash(-2) in CPython)
    "negidx":  {"a": "a", "b": "b", "i": "i", "t1": "t1", "t2": "t2", "e": "e", "l": "l", "g": "g", "_li": -2},
}


# ---------------------------------------------------------------------------------------------------------
# spec values <-> Python values

def to_py(v):
    t = v["t"]
    if t == "int":
        return int(v["n"])
    if t == "bool":
        return bool(v["n"])
    if t == "float":
        return v["n"] / v["d"]
    if t == "nan":
        return float("nan")
    if t == "tuple":
        return (to_py(v["a"]), to_py(v["b"]))
    raise KeyError(t)


def exact(v):
    return v["t"] in ("int", "bool", "float", "nan") or (v["t"] == "tuple" and exact(v["a"]) and exact(v["b"]))


def to_val(x):
    """Python number -> spec value JSON (None if not representable)"""
    if isinstance(x, bool):
        return {"t": "bool", "n": int(x), "d": 1}
    if isinstance(x, int):
        return {"t": "int", "n": x, "d": 1}
    if isinstance(x, float):
        if x != x:
            return {"t": "nan"}
        if x in (float("inf"), float("-inf")):
            return None
        n, d = x.as_integer_ratio()
        return {"t": "float", "n": n, "d": d}
    return None


def same(x, y):
    """equal by type and value (NaN equals NaN; tuples elementwise; numpy by dtype and contents)"""
    if isinstance(x, np.ndarray) or isinstance(y, np.ndarray):
        return isinstance(x, np.ndarray) and isinstance(y, np.ndarray) and x.dtype == y.dtype and x.shape == y.shape and \
            bool(np.all((x == y) | ((x != x) & (y != y))))
    if type(x) is not type(y):
        return False
    if isinstance(x, Obj):
        return same(vars(x), vars(y))
    if isinstance(x, dict):
        return list(x) == list(y) and all(same(x[k], y[k]) for k in x)
    if isinstance(x, list):
        return len(x) == len(y) and all(same(a, b) for a, b in zip(x, y))
    if isinstance(x, tuple):
        return len(x) == len(y) and all(same(a, b) for a, b in zip(x, y))
    if isinstance(x, (float, complex, np.floating, np.complexfloating)) and x != x:
        return y != y
    try:
        return bool(x == y)
    except Exception:
        return False


def canon(x):
    """address-free text of a value (containers hold Obj instances)"""
    if isinstance(x, Obj):
        return "Obj" + canon(vars(x))
    if isinstance(x, dict):
        return "{" + ", ".join(f"{k!r}: {canon(v)}" for k, v in x.items()) + "}"
    if isinstance(x, list):
        return "[" + ", ".join(canon(v) for v in x) + "]"
    if isinstance(x, tuple):
        return "(" + ", ".join(canon(v) for v in x) + ")"
    return f"{type(x).__name__}:{x!r}"


class Outcome:
    """a value or an exception class name"""
    __slots__ = ("val", "exc")

    def __init__(self, val=None, exc=None):
        self.val, self.exc = val, exc

    def __repr__(self):
        return f"raise {self.exc}" if self.exc else canon(self.val)


def outcome(f):
    with warnings.catch_warnings():
        warnings.simplefilter("ignore")
        try:
            return Outcome(val=f())
        except RecursionError:
            raise
        except Exception as ex:
            return Outcome(exc=type(ex).__name__)


def same_outcome(a, b):
    if a.exc or b.exc:
        return a.exc == b.exc
    return same(a.val, b.val)


def spec_outcome(v):
    if v["t"] == "raise":
        return Outcome(exc=v["e"])
    return Outcome(val=to_py(v))


# ---------------------------------------------------------------------------------------------------------
class World:
    def __init__(self, env, keys="plain"):
        import xdeps
        self.K = KEYS[keys]
        K = self.K
        self.e = Obj()
        self.e.p = to_py(env["e.p"])
        self.l = [to_py(env["l.0"]), to_py(env["l.1"])]
        self.s = {K[x]: to_py(env[x]) for x in ("a", "b", "i", "t1", "t2")}
        self.g = [Obj(), Obj()]
        self.g[0].p, self.g[1].p = to_py(env["g.0.p"]), to_py(env["g.1.p"])
        self.s[K["e"]] = self.e
        self.s[K["l"]] = self.l
        self.s[K["g"]] = self.g
        self.m = xdeps.Manager()
        self.sref = self.m.ref(self.s, "s")
        self.fref = self.m.ref(Funcs, "f")
        self.cur = None
        self.mirror = {l: to_py(env[l]) for l in env}     # Python-side contents of the NON-target leaves

    # -- locations -------------------------------------------------------------------------------------------
    def ref(self, l, root=None):
        r = root if root is not None else self.sref
        K = self.K
        if l == "e.p":
            return r[K["e"]].p
        if l in ("l.0", "l.1"):
            return r[K["l"]][int(l[-1]) + K.get("_li", 0)]
        if l in ("g.0.p", "g.1.p"):
            return r[K["g"]][int(l[2]) + K.get("_li", 0)].p
        if l == "s":
            return r
        return r[K[l]]

    def get(self, l):
        if l == "e.p":
            return self.e.p
        if l in ("l.0", "l.1"):
            return self.l[int(l[-1])]
        if l in ("g.0.p", "g.1.p"):
            return self.g[int(l[2])].p
        return self.s[self.K[l]]

    def raw_set(self, l, v):
        if l == "e.p":
            self.e.p = v
        elif l in ("l.0", "l.1"):
            self.l[int(l[-1])] = v
        elif l in ("g.0.p", "g.1.p"):
            self.g[int(l[2])].p = v
        else:
            self.s[self.K[l]] = v

    def loc_of(self, r):
        """real MutableRef -> spec location name, or None"""
        import xdeps.refs as xr
        steps = []
        o = r
        while isinstance(o, (xr.ItemRef, xr.AttrRef)):
            steps.append(("attr" if isinstance(o, xr.AttrRef) else "item", o._key))
            o = o._owner
        if not isinstance(o, xr.Ref):
            return None
        steps.reverse()
        K = self.K
        if o._key == "f":
            return "f:lin" if steps == [("attr", "lin")] else None
        if o._key != "s":
            return None
        if not steps:
            return "s"
        try:
            inv = {("item", K[x]): x for x in ("a", "b", "i", "t1", "t2", "e", "l", "g")}
            first = inv.get(steps[0])
        except TypeError:
            return None
        if first is None:
            return None
        if len(steps) == 1:
            return first
        if len(steps) == 2:
            if first == "e" and steps[1] == ("attr", "p"):
                return "e.p"
            off = K.get("_li", 0)
            if first == "l" and steps[1][0] == "item" and steps[1][1] in (0 + off, 1 + off) and not isinstance(steps[1][1], bool):
                return f"l.{steps[1][1] - off}"
            if first == "l" and steps[1][0] == "item" and hasattr(steps[1][1], "_get_value"):
                return "l.[*]"
            if first == "g" and steps[1][0] == "item" and hasattr(steps[1][1], "_get_value"):
                return "g.[*]"
        if len(steps) == 3 and first == "g" and steps[1][0] == "item" and steps[2] == ("attr", "p"):
            if hasattr(steps[1][1], "_get_value"):
                return "g.[*].p"
            off = K.get("_li", 0)
            if steps[1][1] in (0 + off, 1 + off) and not isinstance(steps[1][1], bool):
                return f"g.{steps[1][1] - off}.p"
        return None

    # -- AST -> real objects ---------------------------------------------------------------------------------
    def operand(self, e, root=None):
        return to_py(e["v"]) if e["k"] == "lit" else self.build(e, root)

    def build(self, e, root=None):
        import xdeps.refs as xr
        k = e["k"]
        if k == "ref":
            return self.ref(e["l"], root)
        if k == "cont":
            return self.ref(e["c"], root)
        if k == "lit":
            return to_py(e["v"])
        if k == "lite":
            return xr.LiteralExpr(to_py(e["v"]))
        if k == "dyn":
            return self.ref(e["o"], root)[self.operand(e["key"], root)]
        if k == "dyna":
            return self.ref("g", root)[self.operand(e["key"], root)].p
        if k == "bin":
            a, b = self.operand(e["a"], root), self.operand(e["b"], root)
            if e["op"] == "==":
                return a._eq(b) if hasattr(a, "_eq") else xr.EqExpr(a, b)
            if e["op"] == "!=":
                return a._neq(b) if hasattr(a, "_neq") else xr.NeExpr(a, b)
            if not isinstance(a, xr.BaseRef) and e["op"] in ("<", "<=", ">", ">="):
                return {"<": xr.LtExpr, "<=": xr.LeExpr, ">": xr.GtExpr, ">=": xr.GeExpr}[e["op"]](a, b)
            return OPS[e["op"]](a, b)
        if k == "un":
            return UNOPS[e["op"]](self.operand(e["a"], root))
        if k == "bi":
            return BIS[e["f"]](self.operand(e["a"], root), *[self.operand(p, root) for p in e["p"]])
        if k == "call":
            f = self.fref.lin
            return f(*[self.operand(a, root) for a in e["args"]], **{n: self.operand(v, root) for n, v in e["kw"]})
        raise KeyError(k)

    # -- real objects -> AST (the projection) ----------------------------------------------------------------
    def abs_operand(self, x):
        import xdeps.refs as xr
        if isinstance(x, xr.BaseRef):
            return self.abs_expr(x)
        v = to_val(x)
        if v is None:
            return {"k": "?", "repr": repr(x)}
        return {"k": "lit", "v": v}

    def abs_expr(self, e):
        import xdeps.refs as xr
        if isinstance(e, (xr.ItemRef, xr.AttrRef, xr.Ref)):
            l = self.loc_of(e)
            if l == "l.[*]":
                return {"k": "dyn", "o": "l", "key": self.abs_operand(e._key)}
            if l == "g.[*].p":
                return {"k": "dyna", "key": self.abs_operand(e._owner._key)}
            if l in ("s", "l", "e", "g"):
                return {"k": "cont", "c": l}
            if l is None or l == "f:lin":
                return {"k": "?", "repr": repr(e)}
            return {"k": "ref", "l": l}
        if isinstance(e, xr.LiteralExpr):
            v = to_val(e._arg)
            return {"k": "lite", "v": v} if v is not None else {"k": "?", "repr": repr(e)}
        if isinstance(e, xr.BinOpExpr):
            return {"k": "bin", "op": e._op_str, "a": self.abs_operand(e._lhs), "b": self.abs_operand(e._rhs)}
        if isinstance(e, xr.UnaryOpExpr):
            return {"k": "un", "op": e._op_str, "a": self.abs_operand(e._arg)}
        if isinstance(e, xr.BuiltinRef):
            name = {v: k for k, v in BIS.items()}.get(e._op)
            if name is None:
                return {"k": "?", "repr": repr(e)}
            return {"k": "bi", "f": name, "a": self.abs_operand(e._arg), "p": [self.abs_operand(p) for p in e._params]}
        if isinstance(e, xr.CallRef):
            if not isinstance(e._func, xr.BaseRef) or self.loc_of(e._func) != "f:lin":
                return {"k": "?", "repr": repr(e)}
            return {"k": "call", "args": [self.abs_operand(a) for a in e._args], "kw": [[n, self.abs_operand(v)] for n, v in e._kwargs]}
        return {"k": "?", "repr": repr(e)}

    # -- the mirrored term: CPython on the operand values, in the operand order of the AST ------------------
    def pyeval(self, e, get=None):
        get = get or self.get
        k = e["k"]
        if k == "ref":
            return get(e["l"])
        if k == "cont":
            return {"s": self.s, "l": self.l, "e": self.e}[e["c"]]
        if k in ("lit", "lite"):
            return to_py(e["v"])
        if k == "dyn":
            idx = self.pyeval(e["key"], get)
            return [get("l.0"), get("l.1")][idx]
        if k == "dyna":
            idx = self.pyeval(e["key"], get)
            return [get("g.0.p"), get("g.1.p")][idx]
        if k == "bin":
            a = self.pyeval(e["a"], get)
            b = self.pyeval(e["b"], get)
            if e["op"] in GUARDED:
                try:
                    return OPS[e["op"]](a, b)
                except ZeroDivisionError:
                    return float("nan")
            return OPS[e["op"]](a, b)
        if k == "un":
            return UNOPS[e["op"]](self.pyeval(e["a"], get))
        if k == "bi":
            a = self.pyeval(e["a"], get)
            return BIS[e["f"]](a, *[self.pyeval(p, get) for p in e["p"]])
        if k == "call":
            args = [self.pyeval(a, get) for a in e["args"]]
            kw = {n: self.pyeval(v, get) for n, v in e["kw"]}
            return Funcs.lin(*args, **kw)
        raise KeyError(k)


# ---------------------------------------------------------------------------------------------------------
def apply(w, lab):
    """perform the action of label lab; -> exception class name or None"""
    import xdeps.refs as xr
    a = lab["a"]
    try:
        if a == "Atom":
            w.cur = w.build(lab["x"])
        elif a == "BinR":
            v = to_py(lab["v"])
            if lab["op"] == "==":
                w.cur = w.cur._eq(v)
            elif lab["op"] == "!=":
                w.cur = w.cur._neq(v)
            else:
                w.cur = OPS[lab["op"]](w.cur, v)
        elif a == "BinL":
            w.cur = OPS[lab["op"]](to_py(lab["v"]), w.cur)
        elif a == "BinRef":
            o = w.ref(lab["l"])
            x, y = (w.cur, o) if lab["side"] == "r" else (o, w.cur)
            if lab["op"] == "==":
                w.cur = x._eq(y)
            elif lab["op"] == "!=":
                w.cur = x._neq(y)
            else:
                w.cur = OPS[lab["op"]](x, y)
        elif a == "Un":
            w.cur = UNOPS[lab["op"]](w.cur)
        elif a == "Bi":
            w.cur = BIS[lab["f"]](w.cur, *[w.operand(p) for p in lab["p"]])
        elif a == "Call":
            f = w.fref.lin
            form = lab["form"]
            if form == "pos":
                w.cur = f(w.cur)
            elif form == "y":
                w.cur = f(1, y=w.cur)
            elif form == "posk":
                w.cur = f(w.cur, w.ref("a"), k=w.ref("b"))
            elif form == "lity":
                w.cur = f(w.cur, y=0.5, k=2)
            else:
                raise KeyError(form)
        elif a == "Index":
            w.cur = w.sref[w.K["l"]][w.cur]
        elif a == "IndexAttr":
            w.cur = w.sref[w.K["g"]][w.cur].p
        elif a == "Assign":
            cur, w.cur = w.cur, None
            w.sref[w.K[lab["t"]]] = cur
        elif a == "InPlace":
            t, v = lab["t"], to_py(lab["v"])
            iop = IOPS[lab["op"]]
            if t == "e.p":
                o = w.sref[w.K["e"]]
                r = o.p
                r = iop(r, v)
                o.p = r
            elif t in ("l.0", "l.1"):
                o = w.sref[w.K["l"]]
                j = int(t[-1]) + w.K.get("_li", 0)
                r = o[j]
                r = iop(r, v)
                o[j] = r
            else:
                r = w.sref[w.K[t]]
                r = iop(r, v)
                w.sref[w.K[t]] = r
        elif a == "SetEnv":
            l, v = lab["l"], to_py(lab["v"])
            if l == "e.p":
                w.sref[w.K["e"]].p = v
            elif l in ("l.0", "l.1"):
                w.sref[w.K["l"]][int(l[-1]) + w.K.get("_li", 0)] = v
            elif l in ("g.0.p", "g.1.p"):
                w.sref[w.K["g"]][int(l[2]) + w.K.get("_li", 0)].p = v
            else:
                w.sref[w.K[l]] = v
        else:
            raise KeyError(a)
    except RecursionError:
        return "RecursionError"
    except Exception as ex:
        return type(ex).__name__
    return None


def mirror_step(w, lab, spec_defs_before):
    """advance the Python-side contents of the non-target leaves (targets are checked by re-evaluation)"""
    a = lab["a"]
    if a == "SetEnv":
        w.mirror[lab["l"]] = to_py(lab["v"])
    elif a == "InPlace" and not (lab["t"] in ("t1", "t2") and spec_defs_before[lab["t"]]["k"] != "none"):
        o = outcome(lambda: OPS[lab["op"]](w.mirror[lab["t"]], to_py(lab["v"])))
        if not o.exc:
            w.mirror[lab["t"]] = o.val
        return o.exc or "none"
    return None


OPAQUE_ENVS = {
    "complex": {"a": complex(1, 2), "b": complex(0, -1), "i": 1, "e.p": 2.5, "l.0": complex(3, 0), "l.1": 0, "g.0.p": complex(0, 1), "g.1.p": 2},
    "npscalar": {"a": np.float64(2.5), "b": np.int64(-3), "i": np.int64(0), "e.p": np.float32(0.5), "l.0": np.int64(7), "l.1": np.float64(0.0), "g.0.p": np.float64(1.5), "g.1.p": np.int64(4)},
    "nparray": {"a": np.array([1.0, -2.0, 0.0]), "b": np.array([2, 0, -1]), "i": 1, "e.p": 2, "l.0": np.array([0.5, 4.0, 2.0]), "l.1": np.array([1, 2, 3]), "g.0.p": np.array([2.0, 0.0, 1.0]), "g.1.p": np.array([3, 1, 2])},
}


def has_ref(e):
    if isinstance(e, dict):
        return e.get("k") in ("ref", "cont", "dyn", "dyna", "call") or any(has_ref(v) for v in e.values())
    if isinstance(e, list):
        return any(has_ref(v) for v in e)
    return False


def has_lite(e):
    if isinstance(e, dict):
        return e.get("k") == "lite" or any(has_lite(v) for v in e.values())
    if isinstance(e, list):
        return any(has_lite(v) for v in e)
    return False


def unlit(e):
    if isinstance(e, dict):
        d = {k: unlit(v) for k, v in e.items()}
        if d.get("k") == "lite":
            d["k"] = "lit"
        return d
    if isinstance(e, list):
        return [unlit(v) for v in e]
    return e


def check_node(w, st, prev_cur_ast, fail, stats, do_opaque):
    """all observations at a state whose cur is an expression"""
    import xdeps.refs as xr
    cur_ast, defs_ast, env = st["node"]
    obs = st["obs"]
    e = w.cur
    # -- C04 structure ----------------------------------------------------------------------------------
    got_ast = w.abs_expr(e)
    if got_ast != cur_ast:
        fail(["C04"], f"built object {e!r} has structure {json.dumps(got_ast)[:300]}, the specification builds {json.dumps(cur_ast)[:300]}", {})
        return None
    # -- C04 value --------------------------------------------------------------------------------------
    impl = outcome(e._get_value)
    mirr = outcome(lambda: w.pyeval(cur_ast))
    sv = obs["val"]
    if sv["t"] != "opaque" and (sv["t"] == "raise" or exact(sv)):
        so = spec_outcome(sv)
        stats["spec_exact_values"] += 1
        if not same_outcome(so, mirr):
            raise Machinery(f"PyVal.tla disagrees with CPython on {json.dumps(cur_ast)} in env {w.mirror}: spec {so!r}, CPython {mirr!r}")
    else:
        stats["spec_opaque_values"] += 1
    if not same_outcome(impl, mirr):
        fail(["C04"], f"{e!r}: _get_value() gives {impl!r}, Python on the operand values gives {mirr!r}", {"ast": cur_ast})
    # -- C05 dependencies -----------------------------------------------------------------------------
    deps = outcome(e._get_dependencies)
    if deps.exc or not isinstance(deps.val, set):
        fail(["C05"], f"{e!r}._get_dependencies() is {deps!r}, not a set", {})
    else:
        got = set()
        for d in deps.val:
            got.add(w.loc_of(d) or repr(d))
        want = set(obs["locs"])
        if got != want:
            fail(["C05"], f"{e!r}: reported dependencies {sorted(map(str, got))}, the expression contains the locations {sorted(want)}", {})
    # -- C11 repr round trip -------------------------------------------------------------------------------
    # (expressions built from refs and numeric constants: a LiteralExpr prints as its bare literal by design and has no
    #  spelling of its own, so trees holding one are not demanded to rebuild themselves)
    txt = outcome(lambda: str(e))
    if not has_ref(cur_ast) or has_lite(cur_ast):
        stats["repr_skipped_literalexpr"] += 1
    elif txt.exc:
        fail(["C11"], f"str() of {cur_ast} raised {txt.exc}", {})
    else:
        ns = {"s": w.sref, "f": w.fref}
        back = outcome(lambda: eval(txt.val, {"math": math}, ns))
        if back.exc:
            fail(["C11"], f"the printed form {txt.val!r} does not evaluate in a namespace binding the container labels: {back.exc}", {"ast": cur_ast})
        else:
            b = back.val
            ast2 = w.abs_expr(b) if isinstance(b, xr.BaseRef) else {"k": "plain", "v": repr(b)}
            if unlit(ast2) != unlit(cur_ast):
                fail(["C11"], f"the printed form {txt.val!r} rebuilds {json.dumps(ast2)[:300]} instead of {json.dumps(cur_ast)[:300]}", {})
            else:
                if not (b == e) or (ast2 == cur_ast and hash(b) != hash(e)):
                    fail(["C11", "C06"], f"eval(str(e)) for {txt.val!r} is not equal / does not hash equal to e", {})
                if not same_outcome(outcome(b._get_value), impl):
                    fail(["C11"], f"eval(str(e)) for {txt.val!r} evaluates differently", {})
    # -- C12 pickle ------------------------------------------------------------------------------------------
    pk = outcome(lambda: pickle.loads(pickle.dumps(e)))
    if pk.exc:
        fail(["C12"], f"pickling the expression {e!r} raised {pk.exc}", {"ast": cur_ast})
    else:
        w2 = World.__new__(World)
        w2.K = w.K
        if w.abs_expr(pk.val) != cur_ast:
            fail(["C12"], f"unpickled expression has structure {w.abs_expr(pk.val)}, expected {cur_ast}", {})
        elif not same_outcome(outcome(pk.val._get_value), impl):
            fail(["C12"], f"unpickled expression {e!r} evaluates to {outcome(pk.val._get_value)!r}, the original to {impl!r}", {})
        else:
            import copy as _copy
            for how, obj in (("unpickled", pk.val), ("copy.deepcopy of the", outcome(lambda: _copy.deepcopy(e)).val)):
                if obj is None:
                    continue
                d2 = outcome(obj._get_dependencies)
                got2 = None if d2.exc or not isinstance(d2.val, set) else {w.loc_of(x) or repr(x) for x in d2.val}
                if got2 != set(obs["locs"]):
                    fail(["C05", "C12"], f"{how} expression {e!r} reports the dependencies {sorted(map(str, got2 or []))}, the expression contains the locations "
                         f"{sorted(obs['locs'])}", {})
                    break
    # -- C06 structural equality ------------------------------------------------------------------------------
    twin = outcome(lambda: w.build(cur_ast))
    if twin.exc:
        fail(["C06"], f"building {cur_ast} directly raised {twin.exc}", {})
    else:
        if not (twin.val == e) or hash(twin.val) != hash(e) or {e: 1}.get(twin.val) != 1:
            fail(["C06"], f"two independently built copies of {e!r} are not equal / do not hash equally", {})
        if prev_cur_ast is not None and prev_cur_ast["k"] != "none" and prev_cur_ast != cur_ast:
            other = outcome(lambda: w.build(prev_cur_ast))
            if not other.exc and isinstance(other.val, xr.BaseRef) and (other.val == e):
                fail(["C06"], f"different expressions compare equal: {other.val!r} == {e!r}", {})
    # -- C04 operand kinds the specification treats as opaque -------------------------------------------------
    if do_opaque and not any(d["k"] != "none" for d in defs_ast.values()):
        saved = {l: w.get(l) for l in w.mirror}
        for name, oenv in OPAQUE_ENVS.items():
            for l, v in oenv.items():
                w.raw_set(l, v.copy() if isinstance(v, np.ndarray) else v)
            try:
                i2 = outcome(e._get_value)
                m2 = outcome(lambda: w.pyeval(cur_ast))
                stats["opaque_kind_evaluations"] += 1
                if not same_outcome(i2, m2):
                    fail(["C04"], f"{e!r} over {name} operands: _get_value() gives {i2!r}, Python on the operand values gives {m2!r}", {"env": name})
                elif name == "nparray":
                    # the same expression object evaluated again after its array operands were changed IN PLACE (same objects, new contents)
                    for l in oenv:
                        a_ = w.get(l)
                        if isinstance(a_, np.ndarray):
                            a_ += 1
                            a_[0] = 7 - a_[0]
                    i3 = outcome(e._get_value)
                    m3 = outcome(lambda: w.pyeval(cur_ast))
                    stats["inplace_array_reevaluations"] += 1
                    if not same_outcome(i3, m3):
                        fail(["C04"], f"{e!r} evaluated again after its array operands were changed in place: _get_value() gives {i3!r}, Python on the current "
                             f"operand values gives {m3!r}", {"env": name})
            finally:
                for l, v in saved.items():
                    w.raw_set(l, v)
    return impl


def check_contents(w, st, lab, fail, stats):
    """container contents and definitions after a manager-side step"""
    cur_ast, defs_ast, env = st["node"]
    import xdeps.refs as xr
    # definitions
    for t in ("t1", "t2"):
        r = w.ref(t)
        ex = r._expr
        got = {"k": "none"} if ex is None else w.abs_expr(ex)
        if got != defs_ast[t]:
            fail(["C04"], f"after {lab['a']}({lab.get('t', lab.get('l'))} {lab.get('op', '')}): definition of {t} is {json.dumps(got)[:300]}, specification: {json.dumps(defs_ast[t])[:300]}", {})
            return False
    for l in ("a", "b", "i", "e.p", "l.0", "l.1"):
        ex = w.ref(l)._expr
        if ex is not None:
            fail(["C04"], f"after {lab['a']}: location {l} acquired the definition {ex!r}; the specification defines only t1/t2", {})
            return False
    # contents
    ok = True
    for l, sv in env.items():
        have = w.get(l)
        if l in ("t1", "t2"):
            if defs_ast[l]["k"] != "none" and lab.get("exc", "none") == "none":
                m = outcome(lambda: w.pyeval(defs_ast[l]))
                if not m.exc and not same(have, m.val):
                    fail(["C04", "C01"], f"after {lab['a']}: {l} holds {have!r}, its definition evaluates to {m!r} on the current contents", {})
                    ok = False
            expect = None
        else:
            expect = w.mirror[l]
            if not same(have, expect):
                fail(["C04"], f"after {lab['a']}({lab.get('t', lab.get('l'))} {lab.get('op', '')} {lab.get('v')}): {l} holds {have!r}, Python computes {expect!r}", {})
                ok = False
        if exact(sv):
            stats["spec_exact_values"] += 1
            sp = to_py(sv)
            ref_ = have if expect is None else expect
            if not same(sp, ref_) and ok:
                if expect is not None:
                    raise Machinery(f"PyVal.tla disagrees with CPython after {lab}: {l} spec {sp!r}, CPython {expect!r}")
                fail(["C04"], f"after {lab['a']}: {l} holds {have!r}, the specification says {sp!r}", {})
                ok = False
    return ok


def digest(w, lab, exc, impl):
    """strict digest + the same with the sign of zeros dropped (to classify a difference as 'sign of a zero only')"""
    parts = [lab.get("a"), exc, repr(impl), str(w.cur) if w.cur is not None else None]
    if w.cur is not None:
        d = outcome(w.cur._get_dependencies)
        parts.append(sorted(map(str, d.val)) if not d.exc and d.val is not None else str(d))
    parts.append([canon(w.get(l)) for l in sorted(w.mirror)])
    parts.append(outcome(w.m.dump).val)
    txt = json.dumps(parts, default=str)
    return hashlib.sha1(txt.encode()).hexdigest()[:12] + ":" + hashlib.sha1(txt.replace("-0.0", "0.0").replace("-0j", "0j").encode()).hexdigest()[:8]


def worker(job, shard, nshards):
    g = job["graph"]                    # dict(states={id: {...}}, edges=[(src, lab, dst)], parent={dst: edge index}, roots=[...])
    keys = job.get("keys", "plain")
    fails, stats, samples, digests = [], collections.Counter(), [], {}
    do_opaque = job.get("opaque", True)
    edges, states, parent = g["edges"], g["states"], g["parent"]

    def path_to(sid):
        p = []
        while sid in parent:
            i = parent[sid]
            p.append(i)
            sid = edges[i][0]
        p.reverse()
        return sid, p

    for ei in range(shard, len(edges), nshards):
        src, lab, dst = edges[ei]
        root, path = path_to(src)
        w = World(states[root]["node"][2], keys)
        bad_prefix = False
        kept = []          # expression objects built along the path (operands of what is built next), with the state that specifies them
        for pi in path:
            ps, plab, pd = edges[pi]
            mirror_step(w, plab, states[ps]["node"][1])
            apply(w, plab)
            if plab["a"] not in ("Assign", "InPlace", "SetEnv") and w.cur is not None and "locs" in states[pd].get("obs", {}):
                kept.append((w.cur, states[pd]))
        steps = [edges[i][1] for i in path] + [lab]
        nfail = [0]

        def fail(tags, summary, detail):
            nfail[0] += 1
            stats["fail"] += 1
            if len(fails) < 150:
                fails.append({"tags": tags, "summary": summary, "env": {k: repr(v) for k, v in w.mirror.items()}, "path": steps, "detail": detail})
        stats["edges"] += 1
        st = states[dst]
        mexc = mirror_step(w, lab, states[src]["node"][1])
        exc = apply(w, lab)
        want = lab.get("exc", "none")
        impl = None
        if want == "opaque" or any(v_["t"] == "opaque" for v_ in st["node"][2].values()):
            stats["opaque_outcomes"] += 1
            want = mexc if mexc not in (None, "none") else (exc or "none")        # decided by CPython (mirror; else by the contents check below): contents are compared with the mirror / by re-evaluation
        if (exc or "none") != want:
            fail(["C04"], f"{lab['a']}({lab.get('t', lab.get('l', lab.get('op', '')))} {lab.get('op', '')} {lab.get('v', '')}): outcome {exc}, the specification says {want}", {})
        elif lab["a"] in ("Assign", "InPlace", "SetEnv"):
            stats["manager_steps"] += 1
            if lab["a"] == "InPlace":
                stats["nontrivial"] += 1
            check_contents(w, st, lab, fail, stats)
        else:
            if w.cur is None:
                fail(["C04"], "no expression was built", {})
            else:
                if st["node"][0]["k"] in ("bin", "un", "bi", "call", "dyn", "dyna"):
                    stats["nontrivial"] += 1
                impl = check_node(w, st, states[src]["node"][0], fail, stats, do_opaque)
                # C05 on SHARED sub-expression objects: the objects built earlier on this path are operands of the one just examined and were never asked
                # for their dependencies before; asked now, AFTER the enclosing expression (a per-node memo filled during the enclosing walk would
                # answer for them), each must still report the locations of its own sub-tree
                for obj, pst in reversed(kept[-4:]):
                    d3 = outcome(obj._get_dependencies)
                    got3 = None if d3.exc or not isinstance(d3.val, set) else {w.loc_of(x) or repr(x) for x in d3.val}
                    stats["shared_subexpression_queries"] += 1
                    if got3 != set(pst["obs"]["locs"]):
                        fail(["C05"], f"operand object {obj!r} of {w.cur!r}, asked after the enclosing expression, reports the dependencies "
                             f"{sorted(map(str, got3 or []))}; it contains the locations {sorted(pst['obs']['locs'])}", {})
                        break
                if len(samples) < 2 and len(steps) >= 2 and not nfail[0]:
                    samples.append({"steps": steps, "expression": str(w.cur), "value": repr(impl), "dependencies": sorted(st["obs"]["locs"])})
        if job.get("digest"):
            digests[ei] = digest(w, lab, exc, impl)
    return {"fails": fails, "stats": dict(stats), "samples": samples, "digests": digests}
