"""Engine for Madx.tla (C19)."""
import collections, json, os
from . import tlc, build, par
from .common import SPEC, Machinery, Verdict, seed, tier as get_tier

GEN = os.path.join(SPEC, "gen")


def explore(depth, atoms, envs):
    os.makedirs(GEN, exist_ok=True)
    txt = open(os.path.join(SPEC, "Madx.cfg.tmpl")).read()
    for k, v in dict(DEPTH=depth, ATOMS=atoms, ENVS=envs).items():
        txt = txt.replace(f"@{k}@", str(v))
    name = f"Madx_{depth}_{atoms}_{envs}"
    cfg = os.path.join(GEN, name + ".cfg")
    open(cfg, "w").write(txt)
    out = os.path.join(GEN, f"{name}_{os.getpid()}.out")
    cases, envd = [], None
    try:
        r = tlc.run("Madx.tla", cfg, workers=8, to_file=out, timeout=3000, heap="6g")
        if r.violation:
            raise Machinery("Madx.tla: " + r.violation[:2000])
        with open(out) as fh:
            for line in fh:
                if line.startswith('"[\\"CASE'):
                    cases.append(json.loads(json.loads(line))[1])
                elif line.startswith('"[\\"ENVS') and envd is None:
                    envd = json.loads(json.loads(line))[1]
    finally:
        if os.path.exists(out):
            os.remove(out)
    cases.sort(key=lambda c: json.dumps(c["ast"], sort_keys=True))
    return cases, envd, r


def c19():
    q = get_tier() == "quick"
    v = Verdict("C19", "model_checking", get_tier(),
                "Madx.tla grows syntax trees of the MAD-X grammar production by production (unary signs, + - * / ^ with an atom on either side, one- and two-argument calls; numbers, "
                "dotted variable names, element->attribute) and gives for each its token sequence with minimal parentheses (per the grammar's nesting and left associativity) and fully "
                "parenthesised, and its immediate and deferred value in three environments (ints, floats, mixed); each string (several number / operator / spacing spellings) is parsed and "
                "evaluated by the real MadxEval immediately and deferred, in item and attribute element mode, compared with the spec values and Python on the tree, then assigned through the "
                "manager and re-compared after each name it reads has changed. non-trivial = string containing a name whose deferred expression went through the manager")
    scratch = build.build("compiled")
    plans = [(3, "few", "EnvsAll"), (2, "all", "EnvsAll")] if q else [(3, "all", "EnvsAll"), (4, "few", "EnvsOne")]
    stats = collections.Counter()
    cfgs = []
    tot = 0
    for depth, atoms, envs in plans:
        cases, envd, r = explore(depth, atoms, envs)
        tot += len(cases)
        fails, st, samples = par.run_workers("harness.madx_replay", {"cases": cases, "envs": envd, "scratch": scratch, "mode": "compiled"}, 14)
        stats.update(st)
        cfgs.append({"productions": depth, "atoms": atoms, "environments": envs, "trees": len(cases), "tlc_generated": r.states, "tlc_distinct": r.distinct})
        for s in samples[:2]:
            v.sample(s)
        for f in fails:
            v.violation(f"[Madx.tla {f['mode']} mode, env {f['env']}, {f['style']} parentheses] {f['summary']}", {"engine": "madx_replay", **f})
    v.add(stats["strings"])
    v.set(states=tot, transitions=stats["strings"], traces_validated_against_impl=stats["strings"], distinct_nontrivial=stats["nontrivial"], configurations=cfgs,
          replay_stats=dict(stats), exhaustive=True)
    v.assume("values are exact where PyVal.tla / Madx.tla can state them (ints, dyadic floats, fabs floor ceil sqrt-of-squares pow fmod copysign), cross-checked against CPython; "
             "sin / atan2 and inexact results are decided by CPython on the syntax tree",
             "a constant string (no variable, element or function) evaluates to a plain float in both modes, not to a deferred expression")
    return v.finish()
