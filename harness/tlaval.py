"""Parser for TLA+ values as printed by TLC (PrintT / trace dumps): ints, strings, TRUE/FALSE,
<<tuples>>, {sets}, [records |-> v], (k :> v @@ ...) functions, a..b intervals are not produced by TLC output."""
import re

_tok = re.compile(r'\s*(<<|>>|\|->|:>|@@|[\[\]{}(),]|-?\d+|"(?:[^"\\]|\\.)*"|[A-Za-z_][A-Za-z0-9_!]*)')


class FrozenDict(dict):
    def __hash__(self):
        return hash(frozenset(self.items()))


def tokens(s):
    pos, out = 0, []
    n = len(s)
    while pos < n:
        m = _tok.match(s, pos)
        if not m:
            if s[pos:].strip() == "":
                break
            raise ValueError(f"bad TLA value at {pos}: {s[pos:pos+40]!r}")
        out.append(m.group(1))
        pos = m.end()
    return out


def parse(s):
    toks = tokens(s)
    v, i = _val(toks, 0)
    if i != len(toks):
        raise ValueError(f"trailing tokens in {s[:80]!r}")
    return v


def _val(t, i):
    x = t[i]
    if x == "<<":
        i += 1
        out = []
        while t[i] != ">>":
            v, i = _val(t, i)
            out.append(v)
            if t[i] == ",":
                i += 1
        return tuple(out), i + 1
    if x == "{":
        i += 1
        out = []
        while t[i] != "}":
            v, i = _val(t, i)
            out.append(v)
            if t[i] == ",":
                i += 1
        return frozenset(out), i + 1
    if x == "[":
        i += 1
        d = FrozenDict()
        while t[i] != "]":
            k = t[i]
            assert t[i + 1] == "|->", t[i:i + 3]
            v, i = _val(t, i + 2)
            dict.__setitem__(d, k, v)
            if t[i] == ",":
                i += 1
        return d, i + 1
    if x == "(":
        i += 1
        d = FrozenDict()
        while t[i] != ")":
            k, i = _val(t, i)
            assert t[i] == ":>", t[i]
            v, i = _val(t, i + 1)
            dict.__setitem__(d, k, v)
            if t[i] == "@@":
                i += 1
        return d, i + 1
    if x[0] == '"':
        return bytes(x[1:-1], "utf-8").decode("unicode_escape") if "\\" in x else x[1:-1], i + 1
    if x == "TRUE":
        return True, i + 1
    if x == "FALSE":
        return False, i + 1
    if x[0] == "-" or x[0].isdigit():
        return int(x), i + 1
    return x, i + 1   # model value / identifier
