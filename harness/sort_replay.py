"""Toposort.tla bound to xdeps/sorting.py: every finished run TLC prints (graph with ordered neighbour lists, start sequence, result of the
transcribed algorithm) is executed on the real toposort(), neighbour lists given as lists and as insertion-ordered dicts (what rtasks holds)."""
import json, os, sys, tempfile, shutil
from . import tlc, build
from .common import SPEC, Machinery


def cases(n, sorted_lists):
    d = tempfile.mkdtemp(prefix="toposort-")
    cfg = os.path.join(d, "Toposort.cfg")
    txt = open(os.path.join(SPEC, "Toposort.cfg.tmpl")).read().replace("@N@", str(n)).replace("@SORTED@", "TRUE" if sorted_lists else "FALSE") \
        .replace("@LIVE@", "PROPERTY Terminates" if n <= 3 else "")
    open(cfg, "w").write(txt)
    out = os.path.join(d, "out.txt")
    try:
        r = tlc.run("Toposort.tla", cfg, workers=6, timeout=3000, heap="6g", to_file=out, deadlock=False,
                    jvm=("-Dtlc2.tool.queue.IStateQueue=MemStateQueue",))
        if r.violation or not r.ok:
            raise Machinery("Toposort.tla violates its own lemma (reverse post-order of an acyclic graph is topological / exactly the reachable set):\n"
                            + (r.violation or r.out[-2000:])[:3000])
        cs, seen = [], set()
        with open(out) as fh:
            for line in fh:
                if line.startswith('"[\\"SORT') and line not in seen:       # TLC may evaluate (and print from) an action more than once
                    seen.add(line)
                    v = json.loads(json.loads(line))
                    cs.append((v[1], v[2], v[3]))
    finally:
        shutil.rmtree(d, ignore_errors=True)
    return cs, r


def stage(v, prop, quick):
    """adds the Toposort stage to verdict v (tag: prop)"""
    scratch = build.build("pure")
    sys.path.insert(0, scratch)
    import importlib
    srt = importlib.import_module("xdeps.sorting")
    assert os.path.abspath(srt.__file__).startswith(scratch), srt.__file__
    plans = [(3, False)] if quick else [(3, False), (4, True)]
    tot = bad = 0
    states = 0
    for n, sl in plans:
        cs, r = cases(n, sl)
        states += r.distinct
        for g, start, want in cs:
            for form in ("list", "dict"):
                graph = {i + 1: (list(nb) if form == "list" else dict.fromkeys(nb, 1)) for i, nb in enumerate(g) if nb}
                tot += 1
                try:
                    got = list(srt.toposort(graph, list(start)))
                except Exception as ex:      # noqa
                    got = "raised " + type(ex).__name__
                if got != list(want):
                    bad += 1
                    if bad <= 20:
                        v.violation(f"[Toposort.tla] toposort({graph}, start={list(start)}) gives {got}, the transcription of sorting.py gives {list(want)}",
                                    {"engine": "sort_replay", "graph": g, "start": start, "expected": want, "got": got, "neighbours_as": form})
    v.add(tot)
    v.cov["toposort"] = {"module": "Toposort.tla", "plans": [{"N": n, "sorted_neighbour_lists": sl} for n, sl in plans], "cases_executed": tot,
                         "states": states, "lemmas": ["NoDuplicates", "ExactlyReachable", "Topological (acyclic graphs)"], "mismatches": bad}
    v.cov["states"] = v.cov.get("states", 0) + states
    return v
