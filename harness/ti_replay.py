"""Direction A for TableIndex.tla (C07): every generated transition is replayed on a real xdeps.Table.
Mutations go through the public API; a Probe edge performs every lookup form and compares with the spec's
Resolve table; after every edge the raw columns are compared with the spec state."""
import collections
import numpy as np

NOCOUNT, KEYERR, SKIP = 99, -100, -200


def mk_table(state):
    import xdeps
    idx, val, extra = state[:3]
    data = {"name": np.array(list(idx), dtype=object), "v": np.array(list(val), dtype=float)}
    t = xdeps.Table(data, index="name")
    if extra:
        t["w"] = np.arange(len(idx), dtype=float)
    return t


def rowspec(form, q):
    n, c, o = q
    if form == "tuple":
        if o == 0:
            return (n, 0 if c == NOCOUNT else c)
        return (n, 0 if c == NOCOUNT else c, o)
    s = n
    if c != NOCOUNT:
        s += f"::{c}"
    if o > 0:
        s += f">>{o}"
    elif o < 0:
        s += f"<<{-o}"
    return s


def observe(t):
    hasidx = "name" in t._col_names
    idx = list(t._data["name"]) if hasidx else []
    val = [int(x) for x in t._data["v"]]
    extra = "w" in t._col_names
    ok = (len({len(t._data[c]) for c in t._col_names}) <= 1) and (("w" in t._data) == extra) and (("name" in t._data) == hasidx)
    return [idx, val, extra, hasidx], ok


def _idxcol(lab):
    """the new index column as the user hands it over: an object array, or (every other case) a numpy STRING array of fixed width, as np.array(list_of_names)
    gives: the table stores a new column as given, so labels / caches built from it must not inherit its item size"""
    s = list(lab["s"])
    return np.array(s, dtype=object) if (len(s) + (lab["form"] == "item")) % 2 else np.array(s, dtype=str)


def apply(t, lab):
    """-> exception class name or None"""
    a = lab["a"]
    try:
        if a == "SetCol":
            col = _idxcol(lab)
            if lab["form"] == "item":
                t["name"] = col
            else:
                t.name = col
        elif a == "SetCell":
            i, n, form = lab["i"], lab["n"], lab.get("form", "pos")
            if form == "pos":
                t["name", i] = n
            elif form == "neg":
                t["name", i - len(t)] = n
            elif form == "slice":
                t["name", i:i + 1] = [n]
            elif form == "list":
                t["name", [i]] = [n]
            else:
                m = np.zeros(len(t), dtype=bool)
                m[i] = True
                t["name", m] = [n]
        elif a == "SetCellByRow":
            t["name", rowspec(lab["form"], lab["q"])] = lab["n"]
        elif a == "SetVal":
            t["v", rowspec(lab["form"], lab["q"])] = lab["x"]
        elif a == "AddCol":
            t["w"] = np.arange(len(t), dtype=float)
        elif a == "DelCol":
            if lab["form"] == "del":
                del t["w"]
            else:
                t.pop("w")
        elif a == "DelIndex":
            if lab["form"] == "del":
                del t["name"]
            else:
                t.pop("name")
        elif a == "AddIndex":
            col = _idxcol(lab)
            if lab["form"] == "item":
                t["name"] = col
            else:
                t.name = col
        elif a == "Probe":
            pass
        else:
            raise KeyError(a)
    except Exception as ex:
        return type(ex).__name__, repr(ex)
    return None, None


def lookups(t, table, labels, val):
    """all lookup forms against the spec's answers; -> list of discrepancies"""
    bad = []
    for q, ans in table:
        if ans == SKIP:
            continue
        for form in ("str", "tuple"):
            rs = rowspec(form, q)
            for how in ("getitem", "get_index", "floordiv"):
                if ans == KEYERR:
                    want = "KeyError"
                else:
                    want = ("val", float(val[ans])) if how == "getitem" else ("pos", ans)
                try:
                    if how == "getitem":
                        got = ("val", float(t["v", rs]))
                    elif how == "get_index":
                        got = ("pos", int(t.rows.get_index(rs)))
                    else:
                        got = ("pos", int(t // rs))
                except KeyError:
                    got = "KeyError"
                except Exception as ex:
                    got = type(ex).__name__
                if got != want:
                    bad.append((how, rs, got, want))
    if len(t) > 0:
        try:
            uniq = list(t.cols.get_index_unique())
        except Exception as ex:
            uniq = None
            bad.append(("get_index_unique", repr(ex)))
        if uniq is not None:
            for i, (n, c) in enumerate(labels):
                want = n if c == NOCOUNT else f"{n}::{c}"
                if uniq[i] != want:
                    bad.append(("get_index_unique", i, uniq[i], want))
                try:
                    back = t.rows.get_index(uniq[i])
                except Exception as ex:
                    back = type(ex).__name__
                if back != i:
                    bad.append(("label-resolves-back", uniq[i], back, i))
    return bad


def worker(job, shard, nshards):
    g = job["graph"]
    fails, stats, samples = [], collections.Counter(), []
    for ei in range(shard, len(g.edges), nshards):
        s, lab, d, extra = g.edges[ei]
        root, path = g.path_to(s)
        t = mk_table(g.states[root])
        okp = True
        for pi in path:
            ps, plab, pd, pex = g.edges[pi]
            apply(t, plab)
            if plab["a"] == "Probe":
                lookups(t, pex[0], pex[1], g.states[pd][1])
        stats["edges"] += 1
        exc, exrepr = apply(t, lab)
        want = lab.get("exc", "none")
        steps = [g.edges[i][1] for i in path] + [lab]
        def fail(summary, detail):
            stats["fail"] += 1
            if len(fails) < 100:
                fails.append({"tags": ["C07"], "summary": summary, "root": g.states[root], "path": steps, "detail": detail})
        if (want == "none" and exc is not None) or (want == "KeyError" and exc != "KeyError"):
            fail(f"{lab['a']} {lab.get('q', '')}: expected outcome {want}, got {exc} {exrepr}", {})
            continue
        obs, rect = observe(t)
        exp = g.states[d][:4]
        if obs != exp or not rect:
            fail(f"after {lab['a']}: table columns {obs} differ from the specification {exp}", {"obs": obs, "exp": exp})
            continue
        if lab["a"] == "Probe":
            if any(pl["a"] != "Probe" for pl in steps[:-1]):
                stats["nontrivial"] += 1
            bad = lookups(t, extra[0], extra[1], exp[1])
            if bad:
                fail(f"lookup on index column {exp[0]} after {[ (p['a']) for p in steps[:-1]]}: {bad[:3]}", {"bad": repr(bad)[:1500]})
            elif len(samples) < 2 and len(steps) > 2:
                samples.append({"root_index": g.states[root][0], "steps": steps, "index_after": exp[0]})
    return {"fails": fails, "stats": dict(stats), "samples": samples}
