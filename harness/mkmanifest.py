"""Writes MANIFEST.json from the table below (kept in one place so that it is always valid)."""
import json, os, sys
VERIF = os.path.dirname(os.path.dirname(os.path.abspath(__file__)))

CHECKS = {
 "C01": ("model_checking", "2", "TLC model of Manager.tla + replay of every generated transition on the real Manager (contents, definitions, knob state after each call)",
         "Manager.tla (history-free reference machine) is trusted; small universes (3-6 leaves), depth 2 exhaustive + simulated fans quick, depth 3 + 10 thorough; universe U7 adds nested updates (a task whose action assigns through the manager: FlatOrders), 4 calls deep with register / unregister"),
 "C02": ("model_checking", "2", "TLC model + replay observing the ordered Task.run calls: permutation of the spec's Triggered set and linear extension of Produces, under several hash seeds; Toposort.tla (sorting.py transcribed; TLC checks reverse post-order of every acyclic graph over 3-4 vertices is topological and lists exactly the reachable set) with every finished run executed on the real toposort()",
         "order legality is judged by the spec's Produces relation emitted with each transition; structural-cycle steps are a recorded known finding"),
 "C03": ("model_checking", "2", "TLC model + replay comparing index supports, _expr/_tasks/_find_dependant_targets, verify() and a fresh manager with the spec's derived indices after every step",
         "supports only (not reference counts); derived indices are computed by the spec from the surviving definitions"),
 "C17": ("model_checking", "2", "TLC model with Freeze/Unfreeze + replay: refusals (ValueError, projection unchanged), propagation of plain values while frozen, history-free behaviour after unfreeze",
         "as C01; refresh on a frozen manager may either refuse or succeed as long as nothing observable changes"),
 "C18": ("fault_enumeration", "2", "TLC fault model (every crash position of every reachable update) + replay with fault-injecting containers",
         "faults are injected at the first write of the k-th scheduled task (and the initial write; an observer task raises the fault itself); with nested updates (universe U7) at every position of the flat run order; multi-write partial failures of a LinearKnob are out of the enumerated positions"),
 "C11": ("model_checking", "2", "Manager.tla Transfer actions dumpload / copy_plain / copy_bind / copy_keep: the new manager's projection must equal the spec state and every later step on it must conform; plain and hostile keys",
         "expression-language part (every node class, literal catalogue) is decided by Expr.tla, see evidence; manager menus hold 14-21 expressions"),
 "C12": ("model_checking", "2", "Manager.tla Transfer actions pickle_copy / pickle_orig: pickle round trip as a stuttering step, behaviour continues on copy or original, the other side must not move",
         "independence is checked by keeping the other side's projection and comparing it after every later step; further bindings: numpy keys, the default AttrDict container (attribute and item views of one storage), universe U8 (a linear knob whose remembered source value lags behind after a fault)"),
 "C13": ("translation_validation", "2", "per-program validation of mk_fun/gen_fun output against Manager.tla's GenFun action (defined as sequential assignment; TLC asserts the batch formulation agrees)",
         "1- and 2-argument setters over undefined leaves at every reachable state; source text parsed line by line; structural-cycle orders are the recorded known finding"),
 "C20": ("exploration", "2", "the TLC-generated programs of Manager.tla executed under {compiled, pure Python} x PYTHONHASHSEED values; per-step transcripts (exception class, contents, dump() text) must be identical in every configuration, and each run must conform to the spec",
         "quick: 2 builds x 3 seeds; thorough: 2 x 16 seeds and hostile keys; expression-term corpus is covered by the Expr engine's own cross-configuration digests"),
 "C04": ("model_checking", "3", "Expr.tla + PyVal.tla: TLC enumerates expression construction (all operators x operand orders x literal catalogue, builtins, calls, computed keys), assignment, the 13 in-place operators and operand changes; every transition replayed on real refs: structure, value by type, NaN / exception class vs the spec and vs CPython on the mirrored term",
         "exact window: ints, bools, small dyadic floats (PyVal.tla, cross-checked against CPython on every enumerated case); complex / numpy operands and inexact results are decided by CPython on the mirrored term, the structure by the spec"),
 "C05": ("model_checking", "3", "Expr.tla Locs: for every expression TLC builds (every node class x slot, refs directly or nested, bare container refs) _get_dependencies() must be a set projecting exactly onto Locs; model invariant Sensitive (a location whose change alters the value lies in Locs)",
         "construction depth 1 full, depth 2 reduced, deeper by simulation"),
 "C06": ("exploration", "4", "Paths.tla: all pairs of access paths of length <= 2 (3 thorough) over 9 abstract item keys x 3 attribute names x 2 labels under 4 hostile key tables: == / != / hash / dict lookup follow path identity; dictionary behaviours keyed by freshly built refs; then identical / different expression structures (Expr.tla)",
         "collision behaviour of large families only as: n similar keys give n distinct retrievable entries (10^4 quick, 10^5 thorough per family)"),
 "C14": ("model_checking", "5", "TableHeap.tla: heap of live tables under every derivation (rows / cols / cols[expr] / + / *k / concatenate / _copy / _t) and assignment; after every step ALL live tables are compared with the value-semantics specification (rectangular, column list, scalars, cells), so a derivation that damages its source is seen",
         "roots of 0..3 rows, <= 3-5 live tables, depth 2-3 exhaustive + simulated depth 6-9; cells of columns that may share an in-place assigned array are Unknown; two dtype instantiations"),
 "C09": ("model_checking", "6", "OptProto.tla (step/solve/reload/tag/clear_log/enable/disable protocol over an abstract solver and an action raising at any evaluation) explored exhaustively over the design environments of MC_OptProto.tla for C09_ok / C09_restore, and bound by OptProtoTrace.tla (for every recorded call TLC searches the protocol's micro-steps for a path to the logged state; environment measured by the oracle); Optimizer.tla trace specification: solve() calls recorded on real Optimize objects (TLC-enumerated call sequences x generated merit-function families x fault positions) must satisfy the named clauses: normal return => matched (independent re-evaluation), failure + restore_if_fail => iteration-0 knobs and flags",
         "measurements (tolerances, penalties, ulp distances) come from a harness oracle; TLC decides the clauses on their integer abstractions; 400 problems quick / 2000 thorough; design model <= 2 calls / 1 fault quick, <= 2 calls / 2 faults + reachability probes + liveness thorough"),
 "C10": ("model_checking", "6", "OptProto.tla design exploration (C10_inlim / C10_flags / C10_fixed) and trace binding OptProtoTrace.tla as for C09; Optimizer.tla trace specification: every logged row within the closed limits, Jacobian steps bounded by max_step (ppm ratios), disabled knobs bit-identical, temporarily disabled flags active again, twin problems prove a disabled target has no influence, calls accept their documented arguments",
         "as C09; unit weights exact, other weights 4 ulp / 20 ppm; plus 500 (4000) simulated behaviours of 8 (12) calls over OptCalls.tla's LongMenu (steps with two one-call flag arguments)"),
 "C15": ("model_checking", "6", "OptProto.tla design exploration (C15_best / C15_reload / C15_last) and trace binding OptProtoTrace.tla as for C09; Optimizer.tla trace specification: reload(i) restores knobs (ulp) and flags and reproduces the row's penalty and targets; every logged row reproducible by the oracle; step(take_best) ends within tolerance or on the minimum-penalty row; the log stays rectangular after failures",
         "as C09; all rows of all logs produced by the enumerated call sequences, including failing solves and faults in the user's action"),
 "C19": ("model_checking", "7", "Madx.tla: syntax trees of the MAD-X grammar grown production by production, their minimal- and fully-parenthesised token sequences and exact immediate / deferred values; every string parsed and evaluated by the real MadxEval immediately and deferred (item and attribute mode), compared with the spec and with Python on the tree, then pushed through the manager and re-compared after each name changed",
         "3 productions over 5 atoms + 2 over 9 atoms quick (4 productions thorough), 3 environments, several number / operator / spacing spellings; libm functions decided by CPython"),
 "C07": ("model_checking", "5", "TableIndex.tla (index column + lazily built cache) checked with TLC; every generated transition replayed on a real Table, lookups compared with the spec's Resolve",
         "3-name alphabet, 0..3 rows exhaustive (4 thorough), node identity includes last probed snapshot so lookup/update interleavings stay distinct"),
 "C08": ("model_checking", "5", "RowSel.tla: the selector semantics as pure TLA+ operators; TLC enumerates every (table, selector[, selector]) case with its expected rows and each case is executed on a real Table (rows / rows.rows / indices / mask) under several hash seeds",
         "all 364 index columns over 3 names up to length 5 x ~150 selector forms; composition pairs on tables up to length 3 (quick, sampled) / 4 (thorough); regexes are the spellings of the binding table"),
}

NOT_YET = {}

NA = {
 "C16": "numeric linear algebra over the reals (SVD least squares, scalings, finite-difference Jacobians): no state or transition to model, TLC has neither reals nor floats; see DESIGN.md section 8",
}

ALL = [f"C{i:02d}" for i in range(1, 21)]


def main():
    checks = []
    for pid in ALL:
        if pid in CHECKS:
            level, ref, technique, note = CHECKS[pid]
            checks.append({
                "property_id": pid,
                "quick_cmd": f"./check {pid} --tier quick",
                "thorough_cmd": f"./check {pid} --tier thorough",
                "evidence_file": f"evidence/{pid}.json",
                "replay_cmd_template": "./check replay {path}",
                "engine": "tla-replay",
                "level_claimed": {"category": level, "text": technique, "design_ref": "DESIGN.md section " + ref},
                "level_note": note,
                "technique": "explicit TLA+ specification checked with TLC, bound to the code by replaying TLC-generated behaviours / validating recorded traces",
            })
    na = [{"property_id": p, "reason": r} for p, r in NA.items()]
    for pid in ALL:
        if pid not in CHECKS and pid not in NA:
            na.append({"property_id": pid, "reason": NOT_YET.get(pid, "check not built yet in this round (planned in DESIGN.md section 11); not claimed until it exists")})
    man = {
        "version": 1,
        "setup_cmd": "./setup.sh",
        "hooks": {"guard": "XDEPS_VERIF_TRACE", "enable": "no source hooks: recording is done by harness-side wrappers of pure-Python classes imported from a scratch build of /repo's working tree (harness/build.py)",
                  "baseline_off_cmd": "cd /repo && /venv/bin/python -m pytest -ra -q -p no:cacheprovider --timeout=900 --continue-on-collection-errors",
                  "source_commits": [], "add_only": True},
        "engines": [{"name": "tla-replay", "path": "harness/", "serves_properties": sorted(CHECKS),
                     "kind_free_text": "TLC (spec/*.tla) generates behaviours / validates traces; Python harness replays them on a scratch build of /repo"}],
        "checks": checks,
        "not_applicable": na,
        "notes": "See DESIGN.md. known_findings.txt lists recorded findings (known:) and repaired defects (fixed:).",
    }
    with open(os.path.join(VERIF, "MANIFEST.json"), "w") as f:
        json.dump(man, f, indent=1)
    print("MANIFEST.json written:", len(checks), "checks,", len(na), "not applicable")


if __name__ == "__main__":
    main()
