"""Sharded worker subprocesses: each imports xdeps from the scratch build named in the job and runs
   <module>.worker(job, shard, nshards) -> dict(fails=[...], stats={...}, samples=[...]) printed as one JSON line."""
import importlib, json, os, pickle, subprocess, sys, tempfile, collections

PY = "/venv/bin/python"
ROOT = os.path.dirname(os.path.dirname(os.path.abspath(__file__)))


def run_workers(target, job, nshards=8, hashseeds=(0,), timeout=7200, collect=()):
    fd, jobfile = tempfile.mkstemp(prefix="xdv-job-", suffix=".pickle")
    with os.fdopen(fd, "wb") as fh:
        pickle.dump(job, fh)
    procs = []
    try:
        for hs in hashseeds:
            for sh in range(nshards):
                env = dict(os.environ, PYTHONHASHSEED=str(hs), PYTHONPATH=ROOT)
                p = subprocess.Popen([PY, "-m", "harness.par", target, jobfile, str(sh), str(nshards)], env=env, cwd=ROOT,
                                     stdout=subprocess.PIPE, stderr=subprocess.PIPE, text=True)
                procs.append((hs, sh, p))
        fails, stats, samples = [], collections.Counter(), []
        extra = {k: {} for k in collect}
        for hs, sh, p in procs:
            out, err = p.communicate(timeout=timeout)
            if p.returncode != 0:
                from .common import Machinery
                raise Machinery(f"worker {target} (hashseed {hs}, shard {sh}) crashed:\n{err[-3000:]}")
            r = json.loads(out.strip().splitlines()[-1])
            for f in r["fails"]:
                f["hashseed"] = hs
                fails.append(f)
            stats.update(r["stats"])
            samples.extend(r.get("samples", []))
            for k in collect:
                extra[k][(hs, sh)] = r.get(k, {})
        if collect:
            return fails, stats, samples, extra
        return fails, stats, samples
    finally:
        os.remove(jobfile)


def _main():
    target, jobfile, shard, nshards = sys.argv[1], sys.argv[2], int(sys.argv[3]), int(sys.argv[4])
    job = pickle.load(open(jobfile, "rb"))
    if job.get("scratch"):
        sys.path.insert(0, job["scratch"])
        import xdeps
        assert os.path.abspath(xdeps.__file__).startswith(job["scratch"]), xdeps.__file__
        if job.get("mode"):
            import xdeps.refs as xr
            assert xr.is_cythonized() == (job["mode"] == "compiled"), (job["mode"], xr.is_cythonized())
    mod = importlib.import_module(target)
    res = mod.worker(job, shard, nshards)
    print(json.dumps(res, default=str))


if __name__ == "__main__":
    _main()
