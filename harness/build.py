"""Scratch copy of /repo's *working tree* (never /repo's own stale .so), compiled or pure.

build(mode) -> directory to put on PYTHONPATH.  The pure-Python sources are copied afresh on every call;
only the cythonized refs extension is cached, keyed by the sha256 of refs.py + setup.py + interpreter,
so a change to refs.py always triggers a rebuild (the cache is an optimisation, not an input).
"""
import atexit, hashlib, os, shutil, subprocess, sys, tempfile, glob
from .common import REPO, CACHE, Machinery

PY = "/venv/bin/python"
_made = []


def _cleanup():
    for d in _made:
        shutil.rmtree(d, ignore_errors=True)


atexit.register(_cleanup)


def _refs_key():
    h = hashlib.sha256()
    for f in ("xdeps/refs.py", "setup.py", "xdeps/_version.py"):
        with open(os.path.join(REPO, f), "rb") as fh:
            h.update(fh.read())
    h.update(sys.version.encode())
    return h.hexdigest()[:20]


def build(mode="compiled", keep=False):
    assert mode in ("compiled", "pure")
    d = tempfile.mkdtemp(prefix=f"xdv-{mode}-")
    if not keep:
        _made.append(d)
    shutil.copytree(os.path.join(REPO, "xdeps"), os.path.join(d, "xdeps"),
                    ignore=shutil.ignore_patterns("*.so", "*.c", "__pycache__", "*.pyc", "build"))
    if mode == "compiled":
        key = _refs_key()
        cdir = os.path.join(CACHE, "ext-" + key)
        sos = glob.glob(os.path.join(cdir, "refs*.so"))
        if not sos:
            shutil.copy(os.path.join(REPO, "setup.py"), d)
            env = dict(os.environ, CFLAGS=os.environ.get("VERIF_CFLAGS", "-O1"))
            r = subprocess.run([PY, "setup.py", "build_ext", "--inplace"], cwd=d, env=env,
                               stdout=subprocess.PIPE, stderr=subprocess.STDOUT, text=True)
            built = glob.glob(os.path.join(d, "xdeps", "refs*.so"))
            if r.returncode != 0 or not built:
                raise Machinery("cython build failed:\n" + r.stdout[-3000:])
            os.makedirs(cdir, exist_ok=True)
            # keep at most 4 cached extensions
            old = sorted(glob.glob(os.path.join(CACHE, "ext-*")), key=os.path.getmtime)
            for o in old[:-4]:
                shutil.rmtree(o, ignore_errors=True)
            for b in built:
                shutil.copy(b, cdir)
            shutil.rmtree(os.path.join(d, "build"), ignore_errors=True)
            for f in glob.glob(os.path.join(d, "xdeps", "refs.c")):
                os.remove(f)
        else:
            for s in sos:
                shutil.copy(s, os.path.join(d, "xdeps"))
    return d


def use(mode="compiled"):
    """Build and make *this* process import xdeps from the scratch copy."""
    d = build(mode)
    sys.path.insert(0, d)
    for m in [m for m in sys.modules if m == "xdeps" or m.startswith("xdeps.")]:
        del sys.modules[m]
    import xdeps, xdeps.refs
    if not os.path.abspath(xdeps.__file__).startswith(d):
        raise Machinery(f"xdeps imported from {xdeps.__file__}, expected {d}")
    if xdeps.refs.is_cythonized() != (mode == "compiled"):
        raise Machinery(f"build mode mismatch: wanted {mode}, is_cythonized={xdeps.refs.is_cythonized()}")
    return d


if __name__ == "__main__":
    import time
    t = time.time()
    d = build(sys.argv[1] if len(sys.argv) > 1 else "compiled", keep=True)
    print(d, round(time.time() - t, 1))
