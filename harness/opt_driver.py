"""Driver + recorder + independent oracle for the optimizer properties (C09, C10, C15).

A job = (problem spec, call sequence).  worker() builds real xdeps.Optimize objects over generated merit-function families,
executes the calls (public API only), and records one event per call with the measurements Optimizer.tla needs, all
computed by an oracle that re-evaluates the user function itself at the knob values found in the containers / the log
rows (it never trusts the optimizer's own bookkeeping: _err.last_*, penalties, masks are only COMPARED with it).
"""
import collections, json, math, random, struct
import numpy as np

CAP = 2_000_000_000


class InjectedFault(Exception):
    pass


class NoReturn(BaseException):
    """a public call of the optimizer was still running after CALL_BUDGET seconds (normal calls take milliseconds)"""


CALL_BUDGET = 15.0


def _alarm(signum, frame):
    raise NoReturn()


# ---------------------------------------------------------------------------------------------------------
# merit-function families: out_i(k) for knob vector k (plain Python floats)

def make_function(spec):
    fam, nk, nt = spec["family"], spec["nk"], spec["nt"]
    A = np.array(spec["A"], dtype=float)
    c = np.array(spec["c"], dtype=float)

    def f(k):
        k = np.asarray(k, dtype=float)
        if fam in ("linear", "inconsistent", "rankdef"):
            return A @ k + c
        if fam == "quadratic":
            return (A @ k + c) ** 2 + 0.5 * (A @ k)
        if fam == "trig":
            return np.sin(A @ k) + c * np.cos(k.sum())
        raise KeyError(fam)
    return f


def gen_problem(rnd, idx):
    fam = rnd.choice(["linear", "linear", "inconsistent", "rankdef", "quadratic", "trig"])
    nk = rnd.randint(1, 4)
    nt = rnd.randint(1, 5)
    if fam == "inconsistent":
        nt = max(nt, nk + 1)
    A = [[round(rnd.uniform(-2, 2), 3) for _ in range(nk)] for _ in range(nt)]
    if fam == "rankdef" and nk >= 2:
        for r in A:
            r[1] = 2 * r[0]
    if fam == "linear":
        for i in range(min(nk, nt)):
            A[i][i] += 3.0 * (1 if A[i][i] >= 0 else -1)      # well conditioned
    c = [round(rnd.uniform(-1, 1), 3) for _ in range(nt)]
    ksol = [round(rnd.uniform(-1, 1), 3) for _ in range(nk)]
    spec = {"family": fam, "nk": nk, "nt": nt, "A": A, "c": c}
    f = make_function(spec)
    values = [float(v) for v in f(ksol)]
    if fam == "inconsistent":
        values = [v + rnd.choice([-1, 1]) * 0.5 for v in values]
    k0 = [round(rnd.uniform(-0.5, 0.5), 3) for _ in range(nk)]
    limits = []
    for i in range(nk):
        mode = rnd.choice(["wide", "wide", "tight", "none", "excl"])
        if mode == "wide":
            limits.append([-10.0, 10.0])
        elif mode == "none":
            limits.append(None)
        elif mode == "tight":
            limits.append([min(k0[i], ksol[i]) - 0.05, max(k0[i], ksol[i]) + 0.05])
        else:       # the unconstrained solution lies outside
            side = 1 if ksol[i] >= k0[i] else -1
            mid = k0[i] + 0.5 * (ksol[i] - k0[i]) + 1e-3 * side
            limits.append([k0[i] - 0.3, mid] if side > 0 else [mid, k0[i] + 0.3])
    max_step = [rnd.choice([None, None, 0.05, 0.2, 1.0, 0.01 * (i + 1)]) for i in range(nk)]
    unit = rnd.random() < 0.6
    weights = [1.0 if unit else rnd.choice([1.0, 3.0, 0.5, 10.0, 0.25]) for _ in range(nk)]
    tweights = [rnd.choice([1.0, 1.0, 2.0, 0.1]) for _ in range(nt)]
    tols = [rnd.choice([1e-8, 1e-6, 1e-3]) for _ in range(nt)]
    spec.update(values=values, k0=k0, limits=limits, max_step=max_step, weights=weights, unit_weights=all(w == 1.0 for w in weights),
                tweights=tweights, tols=tols, n_steps_max=rnd.choice([3, 6, 12]), restore=rnd.random() < 0.85,
                vtags=[f"g{i % 2}" for i in range(nk)], ttags=[f"h{i % 2}" for i in range(nt)],
                fault=None, idx=idx, twin_target=nt - 1)
    return spec


# ---------------------------------------------------------------------------------------------------------
# oracle

def ulps(a, b):
    if a == b:
        return 0
    if a != a or b != b or math.isinf(a) or math.isinf(b):
        return CAP
    ia = struct.unpack("<q", struct.pack("<d", a))[0]
    ib = struct.unpack("<q", struct.pack("<d", b))[0]
    if ia < 0:
        ia = -(ia & 0x7FFFFFFFFFFFFFFF)
    if ib < 0:
        ib = -(ib & 0x7FFFFFFFFFFFFFFF)
    return min(CAP, abs(ia - ib))


class Oracle:
    def __init__(self, spec, twin=False):
        self.spec = spec
        self.f = make_function(spec)
        self.twin = twin

    def outputs(self, k):
        out = np.array(self.f(k), dtype=float)
        if self.twin:
            j = self.spec["twin_target"]
            out[j] = out[j] * -3.0 + 1000.0 * (1.0 + float(np.sum(k)))      # a very different function for the designated target
        return out

    def residuals(self, k):
        return self.outputs(k) - np.array(self.spec["values"], dtype=float)

    def within_tol(self, k, tact):
        r = self.residuals(k)
        return all(abs(r[i]) < self.spec["tols"][i] for i in range(len(r)) if (i + 1) in tact)

    def penalty(self, k, tact):
        r = self.residuals(k)
        w = self.spec["tweights"]
        return math.sqrt(sum((w[i] * r[i]) ** 2 for i in range(len(r)) if (i + 1) in tact))

    def inlim(self, k):
        out = []
        for i, lim in enumerate(self.spec["limits"]):
            if lim is None or (lim[0] <= k[i] <= lim[1]):
                out.append(i + 1)
        return out


# ---------------------------------------------------------------------------------------------------------
class Session:
    """one real Optimize object + recorder"""

    def __init__(self, spec, twin=False):
        import xdeps as xd
        from xdeps.general import _print
        _print.suppress = True
        self.xd = xd
        spec = dict(spec, values=list(spec["values"]))      # the job of THIS session: "Retarget" changes its target values
        self.spec = spec
        self.oracle = Oracle(spec, twin)
        self.epochs = [list(spec["values"])]                 # target values per epoch
        self.row_epoch_marks = []                            # log lengths at which an epoch began (reset by clear_log)
        self.base_epoch = 0
        self.ncalls = 0
        self.fault = spec.get("fault")          # None | [k, "once"|"always"]: the user's action raises at its k-th call
        self.d = {f"k{i}": float(v) for i, v in enumerate(spec["k0"])}
        sess = self

        class Act(xd.Action):
            def run(self_inner):
                sess.ncalls += 1
                if sess.fault is not None:
                    k, mode = sess.fault
                    if sess.ncalls == k or (mode == "always" and sess.ncalls >= k):
                        raise InjectedFault(f"user action raised at call {sess.ncalls}")
                out = sess.oracle.outputs([sess.d[f"k{i}"] for i in range(spec["nk"])])
                return {f"t{i}": float(out[i]) for i in range(spec["nt"])}
        self.act = Act()
        vary = [xd.Vary(f"k{i}", self.d, limits=spec["limits"][i], step=1e-7, max_step=spec["max_step"][i], weight=spec["weights"][i],
                        tag=spec["vtags"][i]) for i in range(spec["nk"])]
        targets = [self.act.target(f"t{i}", spec["values"][i], tol=spec["tols"][i], weight=spec["tweights"][i], tag=spec["ttags"][i])
                   for i in range(spec["nt"])]
        self.opt = xd.Optimize(vary=vary, targets=targets, restore_if_fail=spec["restore"], n_steps_max=spec["n_steps_max"],
                               show_call_counter=False, verbose=0)
        self.points = {}
        self.user_tags = []

    # -- projection ----------------------------------------------------------------------------------------
    def knobs(self):
        return [float(self.d[f"k{i}"]) for i in range(self.spec["nk"])]

    def pt(self, k):
        key = tuple(struct.pack("<d", float(x)) for x in k)
        return self.points.setdefault(key, len(self.points) + 1)

    def ptn(self, k):
        """point identity for OptProtoTrace.tla: with non-unit knob weights the knobs -> x -> knobs round trip of an evaluation moves a
        knob by an ulp, so vectors within 4 ulp per coordinate are one point there (unit weights: exact)"""
        k = [float(x) for x in k]
        if not hasattr(self, "npoints"):
            self.npoints = []
        tol = 0 if self.spec["unit_weights"] else 4
        for i, q in enumerate(self.npoints):
            if all(ulps(a, b) <= tol for a, b in zip(k, q)):
                return i + 1
        self.npoints.append(k)
        return len(self.npoints)

    def flags(self):
        return ([i + 1 for i, v in enumerate(self.opt.vary) if v.active], [i + 1 for i, t in enumerate(self.opt.targets) if t.active])

    def loglen(self):
        return len(self.opt._log["penalty"])

    def log_ok(self):
        try:
            L = self.opt._log
            n = {len(v) for v in L.values()}
            if len(n) != 1:
                return False
            if n == {0}:
                return True         # clear_log() whose evaluation raised leaves zero rows: rectangular; no property asks log() to render an empty log
            t = self.opt.log()
            return len(t) == len(L["penalty"])
        except Exception:
            return False

    def state(self):
        va, ta = self.flags()
        return {"cur": self.pt(self.knobs()), "curn": self.ptn(self.knobs()), "vact": va, "tact": ta, "loglen": self.loglen()}

    def rows(self, start, first_kind):
        """abstract rows for log entries start.. (0-based), measured by the oracle"""
        L = self.opt._log
        n = min(len(L[k]) for k in ("knobs", "penalty", "vary_active", "target_active", "alpha", "targets", "tag"))
        allpen = []
        out = []
        for i in range(start, n):
            k = [float(x) for x in L["knobs"][i]]
            va = [j + 1 for j, ch in enumerate(L["vary_active"][i]) if ch == "y"]
            ta = [j + 1 for j, ch in enumerate(L["target_active"][i]) if ch == "y"]
            open_ = self.oracle.penalty(k, ta)
            logged = float(L["penalty"][i])
            penok = abs(logged - open_) <= 1e-9 * max(1.0, abs(open_))
            tr = np.array(L["targets"][i], dtype=float)
            tarok = bool(np.allclose(tr, self.oracle.outputs(k), rtol=1e-12, atol=1e-12))
            alpha = L["alpha"][i]
            kind = "jac" if (alpha is not None and alpha != -1) else ("reload" if i > start or first_kind == "reload" else first_kind)
            same, ratio = [], []
            if i > 0:
                kp = [float(x) for x in L["knobs"][i - 1]]
                for j in range(len(k)):
                    if k[j] == kp[j]:
                        same.append(j + 1)
                    ms = self.spec["max_step"][j]
                    ratio.append(0 if ms is None else min(CAP, int(math.ceil(abs(k[j] - kp[j]) / ms * 1e6))))
            else:
                same = list(range(1, len(k) + 1))
                ratio = [0] * len(k)
            out.append({"pt": self.pt(k), "ptn": self.ptn(k), "va": va, "ta": ta, "kind": kind, "penf": open_, "tol": bool(self.oracle.within_tol(k, ta)),
                        "inlim": self.oracle.inlim(k), "same": same, "ratio": ratio, "penok": bool(penok), "tarok": tarok, "knobs": k})
        # penalties -> dense ranks with a relative tie tolerance
        vals = sorted(r["penf"] for r in out)
        ranks, cur = [], 0
        for i, v in enumerate(vals):
            if i > 0 and abs(v - vals[i - 1]) > 1e-9 * max(1.0, abs(v)):
                cur += 1
            ranks.append((v, cur))
        for r in out:
            r["pen"] = next(rk for v, rk in ranks if v == r["penf"])
            del r["penf"]
        return out

    def epoch_of_row(self, i):
        return self.base_epoch + sum(1 for m in self.row_epoch_marks if m <= i)

    def environment(self, events, init):
        """what OptProto.tla needs to know about the points this session visited, measured by the oracle (never read from the optimizer)"""
        spec, nt = self.spec, self.spec["nt"]
        vecs = list(self.npoints)
        masks = {frozenset(init["tact"])}
        for e in events:
            masks.add(frozenset(e["af"]["tact"]))
            masks.add(frozenset(e["af"]["tact"]) | frozenset(e.get("dis_t", [])))
            for r in e["rows"]:
                masks.add(frozenset(r["ta"]))
        pens, tolts = [], []
        for values in self.epochs:
            orc = Oracle(dict(spec, values=values), self.oracle.twin)
            vals = {}
            for pi, k in enumerate(vecs):
                for m in masks:
                    vals[(pi, m)] = orc.penalty(k, m)
            order = sorted(set(vals.values()))
            rank, cur = {}, 0
            for i, v in enumerate(order):
                if i > 0 and abs(v - order[i - 1]) > 1e-9 * max(1.0, abs(v)):
                    cur += 1
                rank[v] = cur
            pen = []
            for pi in range(len(vecs)):
                row = [-1] * (2 ** nt)
                for m in masks:
                    row[sum(2 ** (t - 1) for t in m)] = rank[vals[(pi, m)]]
                pen.append(row)
            pens.append(pen)
            tolt = []
            for k in vecs:
                r = orc.residuals(k)
                tolt.append([i + 1 for i in range(nt) if abs(r[i]) < spec["tols"][i]])
            tolts.append(tolt)
        coord, ids = [], [[] for _ in range(spec["nk"])]
        ctol = 0 if spec["unit_weights"] else 4
        for k in vecs:
            row = []
            for j in range(spec["nk"]):
                hit = next((i for i, v in enumerate(ids[j]) if ulps(v, k[j]) <= ctol), None)
                if hit is None:
                    ids[j].append(k[j])
                    hit = len(ids[j]) - 1
                row.append(hit + 1)
            coord.append(row)
        return {"nk": spec["nk"], "nt": nt, "npts": len(vecs), "nep": len(self.epochs), "start": init["curn"], "nmax": spec["n_steps_max"],
                "restore": bool(spec["restore"]), "coord": coord, "inlimk": [self.oracle.inlim(k) for k in vecs], "tolt": tolts, "pen": pens}

    # -- resolving enable/disable arguments independently ------------------------------------------------
    def resolve(self, what):
        nk, nt = self.spec["nk"], self.spec["nt"]
        if what == "v":
            return {"vary": [0] if nk > 1 else [0]}, [1], []
        if what == "vtag":
            return {"vary": "g1"}, [i + 1 for i in range(nk) if self.spec["vtags"][i] == "g1"], []
        if what == "vname":
            return {"vary_name": f"k{nk - 1}"}, [nk], []
        if what == "t":
            j = self.spec["twin_target"]
            return {"target": [j]}, [], [j + 1]
        if what == "ttag":
            return {"target": "h1"}, [], [i + 1 for i in range(nt) if self.spec["ttags"][i] == "h1"]
        if what == "all":
            return {"target": True, "vary": True}, list(range(1, nk + 1)), list(range(1, nt + 1))
        raise KeyError(what)

    # -- calls ----------------------------------------------------------------------------------------------
    def call(self, c):
        """execute one call of the sequence; -> event dict (without twin information)"""
        opt, spec = self.opt, self.spec
        ev = dict(c)
        before = self.loglen()
        knobs_before = self.knobs()
        ev["start_inlim"] = len(self.oracle.inlim(knobs_before)) == spec["nk"]   # e.g. not after a step() that raised in the middle of a Jacobian evaluation and left a probe point
        row0 = None
        first_kind = "tag"
        ev.update(en_v=[], en_t=[], dis_v=[], dis_t=[], twin_same=True, unit_weights=spec["unit_weights"], restore=spec["restore"])
        kwargs = {}
        try:
            if c["ev"] == "Step":
                kwargs = dict(n_steps=c["n"], take_best=c["take_best"], broyden=c["broyden"])
                # one-call flag arguments; "a+b" passes two of them in the same call (LongMenu of OptCalls.tla)
                for dis in c["dis"].split("+"):
                    if dis == "vary":
                        kwargs["disable_vary"] = [0]
                        ev["dis_v"] = sorted(set(ev["dis_v"]) | {1})
                    elif dis == "vary_name":
                        kwargs["disable_vary_name"] = f"k{spec['nk'] - 1}"
                        ev["dis_v"] = sorted(set(ev["dis_v"]) | {spec["nk"]})
                    elif dis == "target":
                        kwargs["disable_target"] = [spec["twin_target"]]
                        ev["dis_t"] = [spec["twin_target"] + 1]
                    elif dis == "en_vary":
                        kwargs["enable_vary"] = [0]
                        ev["en_v"] = [1]
                    elif dis == "en_target":
                        kwargs["enable_target"] = [spec["twin_target"]]
                        ev["en_t"] = [spec["twin_target"] + 1]
                    elif dis != "none":
                        raise KeyError(dis)
                fn = lambda: opt.step(**kwargs)
            elif c["ev"] == "Solve":
                ev.update(n=spec["n_steps_max"], take_best=True)
                fn = lambda: opt.solve(broyden=c["broyden"])
            elif c["ev"] == "Reload":
                first_kind = "reload"
                how = c["how"]
                if how == "tag":
                    tg = self.user_tags[-1] if self.user_tags else "nosuchtag"
                    it = max(i for i, t in enumerate(opt._log["tag"]) if t == tg) if tg in opt._log["tag"] else None
                    fn = lambda: opt.reload(tag=tg)
                else:
                    it = {"first": 0, "last": before - 1, "mid": before // 2}[how]
                    fn = lambda: opt.reload(iteration=it)
                ev["it"] = -1 if it is None else int(it)
                if it is not None:
                    src = self.rows(it, "tag")[0] if it < before else None
                    ev["row"] = {"va": src["va"], "ta": src["ta"]} if src else {"va": [], "ta": []}
                    ev["_src_epoch_same"] = self.epoch_of_row(it) == len(self.epochs) - 1
                    ev["_src_knobs"] = [float(x) for x in opt._log["knobs"][it]]
                    ev["_src_pen"] = float(opt._log["penalty"][it])
                    ev["_src_tar"] = [float(x) for x in opt._log["targets"][it]]
                else:
                    ev["row"] = {"va": [], "ta": []}
            elif c["ev"] == "Tag":
                name = f"u{len(self.user_tags)}"
                self.user_tags.append(name)
                fn = lambda: opt.tag(name)
            elif c["ev"] == "ClearLog":
                def fn():
                    try:
                        opt.clear_log()
                    finally:
                        self.base_epoch, self.row_epoch_marks = len(self.epochs) - 1, []
            elif c["ev"] == "Retarget":
                # the user changes the job between calls (what solve_homotopy does between its sub-solves): target j gets a new value
                j = c["j"] % spec["nt"]

                def fn():
                    new = float(opt.targets[j].value) + 0.25 * c["delta"]
                    opt.targets[j].value = new
                    spec["values"][j] = new
                    self.epochs.append(list(spec["values"]))
                    self.row_epoch_marks.append(self.loglen())
            elif c["ev"] in ("Enable", "Disable"):
                kw, v, t = self.resolve(c["what"])
                ev["v"], ev["t"] = v, t
                fn = (lambda: opt.enable(**kw)) if c["ev"] == "Enable" else (lambda: opt.disable(**kw))
            else:
                raise KeyError(c["ev"])
            if before > 0:
                r0 = self.rows(0, "tag")[:1]
                row0 = {"va": r0[0]["va"], "ta": r0[0]["ta"], "knobs": r0[0]["knobs"]} if r0 else None
            import signal
            old = signal.signal(signal.SIGALRM, _alarm)
            signal.setitimer(signal.ITIMER_REAL, CALL_BUDGET)
            try:
                fn()
            finally:
                signal.setitimer(signal.ITIMER_REAL, 0)
                signal.signal(signal.SIGALRM, old)
            ev["out"] = "ok"
        except NoReturn:
            # nothing in the listed properties speaks about termination: the call is not part of the trace, the session ends here (counted)
            raise
        except Exception as ex:       # every outcome is an observation
            ev["out"] = type(ex).__name__
            ev["exc_text"] = str(ex)[:160]
        after = self.loglen()
        start = 0 if c["ev"] == "ClearLog" else min(before, after)
        ev["rows"] = self.rows(start, first_kind) if c["ev"] not in ("Enable", "Disable", "Retarget") else []
        ev["log_ok"] = self.log_ok()
        ev["af"] = self.state()
        k = self.knobs()
        ev["moved_ulp"] = max(ulps(a, b) for a, b in zip(k, knobs_before))
        ev["first_row_ulp"] = max(ulps(a, b) for a, b in zip(ev["rows"][0]["knobs"], knobs_before)) if ev["rows"] else 0
        ev["last_row_ulp"] = max(ulps(a, b) for a, b in zip(ev["rows"][-1]["knobs"], k)) if ev["rows"] else 0
        va, ta = self.flags()
        if c["ev"] == "Solve":
            ev["oracle_tol"] = bool(self.oracle.within_tol(k, ta))
            if row0 is not None and len(self.opt._log["knobs"]) > 0:
                k0 = [float(x) for x in self.opt._log["knobs"][0]]
                ev["restored_ulp"] = max(ulps(a, b) for a, b in zip(k, k0))
                r0 = self.rows(0, "tag")[:1]
                ev["row0"] = {"va": r0[0]["va"], "ta": r0[0]["ta"]} if r0 else {"va": [], "ta": []}
            else:
                ev["restored_ulp"], ev["row0"] = 0, {"va": va, "ta": ta}
        if c["ev"] == "Reload":
            if "_src_knobs" in ev and ev["out"] == "ok":
                ev["reload_ulp"] = max(ulps(a, b) for a, b in zip(k, ev["_src_knobs"]))
                pen_now = self.oracle.penalty(k, ta)
                ev["pen_same"] = bool(abs(pen_now - ev["_src_pen"]) <= 1e-9 * max(1.0, abs(pen_now)) * (1 if spec["unit_weights"] else 1e3)) \
                    or not ev["_src_epoch_same"]          # the penalty of a row logged before the targets were changed is not reproduced (its knobs and outputs are)
                ev["tar_same"] = bool(np.allclose(self.oracle.outputs(k), ev["_src_tar"], rtol=1e-9, atol=1e-9))
            else:
                ev.update(reload_ulp=0, pen_same=True, tar_same=True)
        for key in [x for x in ev if x.startswith("_")]:
            del ev[key]
        return ev


def strip(ev):
    e = dict(ev)
    e["rows"] = [{k: v for k, v in r.items() if k != "knobs"} for r in ev.get("rows", [])]
    e.pop("exc_text", None)
    return e


def run_job(spec, calls, twin=True):
    """-> trace dict for Optimizer.tla (+ a readable copy of the events)"""
    s = Session(spec)
    s2 = Session(spec, twin=True) if twin else None
    init = s.state()
    events, readable = [], []
    twin_clean = True      # no solver step has yet run with the designated target active (the solver keeps memory: Broyden Jacobian, limit masks)
    cut = False
    for c in calls:
        if cut:
            break
        same_start = s2 is not None and [struct.pack("<d", x) for x in s.knobs()] == [struct.pack("<d", x) for x in s2.knobs()] and s.flags() == s2.flags() \
            and s.ncalls == s2.ncalls
        try:
            ev = s.call(c)
            ev2 = s2.call(c) if s2 is not None else None
        except NoReturn:
            cut = True
            continue
        if s2 is not None:
            jt = spec["twin_target"] + 1
            # only when both optimizers entered the call in the same state: an earlier call with the target active legitimately separated them
            if c["ev"] in ("Step", "Solve") and (any(jt in r["ta"] for r in ev["rows"]) or any(jt in r["ta"] for r in ev2["rows"]) or not ev["rows"]):
                twin_clean = False
            if twin_clean and same_start and c["ev"] in ("Step", "Solve") and ev["rows"] and all(jt not in r["ta"] for r in ev["rows"]) and all(jt not in r["ta"] for r in ev2["rows"]):
                k1 = [[struct.pack("<d", x) for x in r["knobs"]] for r in ev["rows"]]
                k2 = [[struct.pack("<d", x) for x in r["knobs"]] for r in ev2["rows"]]
                ev["twin_same"] = (k1 == k2 and ev["out"] == ev2["out"])
                ev["twin_checked"] = True
        readable.append({k: v for k, v in ev.items() if k not in ("rows",)} | {"rows": [{"kind": r["kind"], "knobs": r["knobs"], "va": r["va"], "ta": r["ta"],
                         "tol": r["tol"], "pen": r["pen"], "ratio": r["ratio"]} for r in ev["rows"]]})
        events.append(strip(ev))
    return {"nk": spec["nk"], "init": init, "events": events, "env": s.environment(events, init), "cut": cut}, readable


def worker(job, shard, nshards):
    """job['jobs'] = [(spec, calls, fault_mode)], fault_mode in (None, 'once', 'always'): with a fault mode the sequence is first run
    fault-free to count the calls N of the user's action, then once per fault position k in 3..N (sampled down to job['max_faults'])"""
    traces, readables, stats = [], [], collections.Counter()
    rnd = random.Random(f"{job.get('seed', 0)}/{shard}")

    def one(i, spec, calls):
        try:
            tr, rd = run_job(spec, calls)
        except InjectedFault:
            stats["constructor_fault"] += 1        # the fault hit the evaluations of the constructor: no optimizer to talk about
            return None
        tr["job"] = i
        tr["fault"] = spec.get("fault")
        traces.append(tr)
        readables.append({"job": i, "fault": spec.get("fault"), "events": rd})
        stats["traces"] += 1
        stats["calls_that_did_not_return"] += bool(tr.get("cut"))
        stats["events"] += len(tr["events"])
        stats["failing_solves"] += sum(1 for e in tr["events"] if e["ev"] == "Solve" and e["out"] != "ok")
        stats["failing_calls"] += sum(1 for e in tr["events"] if e["out"] != "ok")
        stats["twin_checked"] += sum(1 for e in tr["events"] if e.get("twin_checked"))
        return tr

    for i in range(shard, len(job["jobs"]), nshards):
        spec, calls, fmode = job["jobs"][i]
        if fmode is None:
            one(i, spec, calls)
            continue
        s = Session(spec)
        try:
            for c in calls:
                s.call(c)
        except NoReturn:
            stats["calls_that_did_not_return"] += 1
        n = s.ncalls
        ks = list(range(3, n + 1))
        if len(ks) > job.get("max_faults", 6):
            ks = sorted(rnd.sample(ks, job.get("max_faults", 6)))
        for k in ks:
            sp = dict(spec, fault=[k, fmode])
            one(i, sp, calls)
            stats["fault_traces"] += 1
    return {"fails": [], "stats": dict(stats), "samples": [], "traces": traces, "readables": readables}
