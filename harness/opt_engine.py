"""Engine for Optimizer.tla (C09, C10, C15): TLC enumerates call sequences (OptCalls.tla), the driver executes them on real Optimize
objects over generated merit-function families (with fault injection in the user's action), and the recorded calls are validated
against the trace specification of Optimizer.tla, which names every violated clause."""
import collections, json, os, random, re, shutil, tempfile, concurrent.futures as cf
from . import tlc, build, par, tlaval, optproto
from .common import SPEC, Machinery, Verdict, seed, tier as get_tier
from . import opt_driver as od

GEN = os.path.join(SPEC, "gen")


def call_sequences(maxlen):
    os.makedirs(GEN, exist_ok=True)
    cfg = os.path.join(GEN, f"OptCalls_{maxlen}.cfg")
    open(cfg, "w").write(f"INIT Init\nNEXT Next\nCONSTANTS\n  MaxLen = {maxlen}\n  Menu <- FullMenu\nINVARIANT Emit\n")
    r = tlc.run("OptCalls.tla", cfg, workers=4, timeout=1200)
    if r.violation:
        raise Machinery("OptCalls.tla: " + r.violation[:1000])
    seqs = []
    for line in r.out.splitlines():
        if line.startswith('"[\\"SEQ'):
            seqs.append(json.loads(json.loads(line))[1])
    seqs.sort(key=lambda s: json.dumps(s, sort_keys=True))
    # vacuity guard: every kind of call of the menu occurs (a precedence slip in OptCalls.tla once disabled ClearLog without TLC noticing)
    kinds = {c["ev"] for s in seqs for c in s}
    want = {"Step", "Solve", "Reload", "Tag", "ClearLog", "Enable", "Disable", "Retarget"} if maxlen >= 2 else set()
    if want - kinds:
        raise Machinery(f"OptCalls.tla no longer enumerates the calls {sorted(want - kinds)}")
    return seqs, r


def long_sequences(num, length, sd):
    """`num` behaviours of exactly `length` calls of OptCalls.tla over its LongMenu, drawn by `tlc -simulate`"""
    os.makedirs(GEN, exist_ok=True)
    cfg = os.path.join(GEN, f"OptCalls_long_{length}.cfg")
    open(cfg, "w").write(f"INIT Init\nNEXT Next\nCONSTANTS\n  MaxLen = {length}\n  Menu <- LongMenu\nINVARIANT EmitFull\n")
    r = tlc.run("OptCalls.tla", cfg, workers=1, simulate=num, depth=length + 1, seed=sd, timeout=1200)
    if r.violation:
        raise Machinery("OptCalls.tla (long): " + r.violation[:1000])
    seqs = []
    for line in r.out.splitlines():
        if line.startswith('"[\\"SEQ'):
            seqs.append(json.loads(json.loads(line))[1])
    if len(seqs) < num // 2 or any(len(s) != length for s in seqs):
        raise Machinery(f"OptCalls.tla (long): {len(seqs)} behaviours of length {length} emitted, {num} asked for")
    if not any("+" in c.get("dis", "") for s in seqs for c in s):
        raise Machinery("OptCalls.tla (long): no step with two one-call flag arguments was drawn")
    return seqs


def validate(traces, workers=6, batch=400):
    """-> {index into traces: [(event number, clause), ...]} for traces with violated clauses; raises Machinery if a trace got no verdict"""
    verdicts = {}
    batches = [list(range(i, min(i + batch, len(traces)))) for i in range(0, len(traces), batch)]

    def run(idx):
        fd, path = tempfile.mkstemp(prefix="xdv-opt-", suffix=".json")
        with os.fdopen(fd, "w") as fh:
            json.dump([{k: traces[i][k] for k in ("nk", "init", "events")} for i in idx], fh)
        try:
            r = tlc.run("Optimizer.tla", os.path.join(SPEC, "OptimizerTrace.cfg"), workers=1, env={"TRACE_FILE": path}, timeout=3000, heap="3g")
        finally:
            os.remove(path)
        if r.violation:
            raise Machinery("trace validation run failed: " + r.violation[:1500])
        out = {}
        buf = None
        for line in r.out.splitlines():
            if buf is None and re.match(r'<<\s*"VERDICT"', line):
                buf = ""
            if buf is not None:
                buf += " " + line
                if buf.count("<<") == buf.count(">>") and buf.count("{") == buf.count("}"):
                    v = tlaval.parse(buf)
                    out[idx[v[1] - 1]] = sorted((x[0], x[1]) for x in v[3])
                    buf = None
        missing = [i for i in idx if i not in out]
        if missing:
            raise Machinery(f"{len(missing)} traces were not consumed by Optimizer.tla (first: job {traces[missing[0]].get('job')}):\n{r.out[-1500:]}")
        return out, r

    states = 0
    with cf.ThreadPoolExecutor(max_workers=workers) as ex:
        for out, r in ex.map(run, batches):
            verdicts.update(out)
            states += r.distinct
    return verdicts, states


INVS = ("C09_ok", "C09_restore", "C10_inlim", "C10_flags", "C10_fixed", "C15_best", "C15_reload", "C15_last")
PROBES = ("reload_moves", "reload_flags", "take_best_reload", "solve_ok", "solve_restored", "solve_fault_restored", "restore_fails", "norestore", "stay",
          "limit_refusal", "probe_left_outside", "clear_fault", "solver_gives_up", "temp_flags", "temp_flags_left", "retarget_solve")


def _proto_cfg(invs, maxcalls, maxfaults):
    d = tempfile.mkdtemp(prefix="optproto-")
    cfg = os.path.join(d, "MC_OptProto.cfg")
    with open(cfg, "w") as fh:
        fh.write("SPECIFICATION Spec\nCONSTANTS\n  MaxCalls = %d\n  MaxFaults = %d\n" % (maxcalls, maxfaults))
        fh.write("".join("INVARIANT %s\n" % i for i in invs) + "CHECK_DEADLOCK FALSE\n")
    return cfg


def design_model(prop, q):
    """OptProto.tla over the design environments of MC_OptProto.tla (abstract solver, the action raising at any evaluation), explored exhaustively for the
    invariants named after `prop`; the thorough tier also runs the reachability probes (each must be violated: the situation is reached)"""
    invs = [i for i in INVS if i.startswith(prop)]
    cfg = _proto_cfg(invs, 2, 1 if q else 2)      # (3 calls with 2 faults did not finish in 100 minutes: the thorough tier deepens the faults, not the calls)
    try:
        r = tlc.run("MC_OptProto.tla", cfg, workers=14, timeout=6000, heap="10g")
    finally:
        shutil.rmtree(os.path.dirname(cfg), ignore_errors=True)
    if not r.ok:
        raise Machinery("OptProto.tla does not satisfy %s any more (a change of the specification, not of the code):\n%s" % (invs, (r.violation or r.out)[-3000:]))
    reached = probes() if not q else None
    return r, invs, reached


def probes():
    """-> list of probe names reached; raises Machinery when a probe is not reached (an action of the protocol model can no longer happen)"""
    def one(name):
        cfg = _proto_cfg(["Probe_" + name], 2, 2)
        try:
            r = tlc.run("MC_OptProto.tla", cfg, workers=2, timeout=3000, heap="3g")
        finally:
            shutil.rmtree(os.path.dirname(cfg), ignore_errors=True)
        return name, bool(r.violation and ("Probe_" + name) in r.violation)
    with cf.ThreadPoolExecutor(max_workers=6) as ex:
        res = dict(ex.map(one, PROBES))
    missing = [k for k, v in res.items() if not v]
    if missing:
        raise Machinery("OptProto.tla: situations no longer reachable in the design model (vacuous invariants): %s" % missing)
    # liveness of the protocol itself: with weakly fair micro-steps every public call returns (FairSpec => Returns)
    d = tempfile.mkdtemp(prefix="optproto-")
    cfg = os.path.join(d, "live.cfg")
    with open(cfg, "w") as fh:
        fh.write("SPECIFICATION FairSpec\nCONSTANTS\n  MaxCalls = 1\n  MaxFaults = 2\nPROPERTY Returns\nCHECK_DEADLOCK FALSE\n")
    try:
        r = tlc.run("MC_OptProto.tla", cfg, workers=4, timeout=3000, heap="4g")
    finally:
        shutil.rmtree(d, ignore_errors=True)
    if not r.ok:
        raise Machinery("OptProto.tla: a public call of the protocol model need not return (FairSpec => Returns fails):\n" + (r.violation or r.out)[-2000:])
    return sorted(res) + ["liveness: every call returns (%d states)" % r.distinct]


def run(prop, level, rule):
    q = get_tier() == "quick"
    v = Verdict(prop, level, get_tier(), rule)
    rm, minvs, reached = design_model(prop, q)
    scratch = build.build("pure")
    rnd = random.Random(seed())
    seqs, r0 = call_sequences(3 if q else 4)
    nprob = 400 if q else 2000
    problems = [od.gen_problem(rnd, i) for i in range(nprob)]
    jobs = []
    # half of the sampled sequences are drawn from those in which solver calls interact with flag changes / reloads (at least two
    # step/solve calls and one enable/disable/reload/clear_log): contracts about "the most recent point" vs "some earlier point" live there
    rich = [s for s in seqs if sum(c["ev"] in ("Solve", "Step") for c in s) >= 2 and any(c["ev"] in ("Enable", "Disable", "Reload", "ClearLog", "Retarget") for c in s)] or seqs
    for p in problems:
        for s in rnd.sample(seqs, 4 if q else 12) + rnd.sample(rich, 4 if q else 12):
            jobs.append((p, s, None))
        # sequences that contain a solve / a step, with the user's action raising at every call position
        withsolve = [s for s in seqs if any(c["ev"] in ("Solve", "Step") for c in s)]
        for s in rnd.sample(withsolve, 2 if q else 6):
            jobs.append((p, s, rnd.choice(["once", "always"])))
    # 4-call sequences in which flags are changed around a log operation before a solver call (a row logged with a knob / target inactive that
    # is active again when a solve fails or a step takes its best row): all of them, each on a few problems
    seqs4 = seqs if not q else call_sequences(4)[0]
    def _rich4(s_):
        return len(s_) == 4 and s_[0]["ev"] == "Disable" and s_[1]["ev"] in ("ClearLog", "Reload", "Tag") and s_[2]["ev"] == "Enable" and s_[3]["ev"] in ("Solve", "Step")
    r4 = [s_ for s_ in seqs4 if _rich4(s_)]
    hard = [p_ for p_ in problems if p_["family"] == "inconsistent"] or problems          # solves that fail: the restore clause of C09 lives there
    for s_ in r4:
        for p_ in rnd.sample(problems, 2 if q else 6) + rnd.sample(hard, min(len(hard), 3 if q else 8)):
            jobs.append((p_, s_, None))
    # long histories: behaviours of 8 (12) calls over the long menu (steps with two one-call flag arguments, enabling a target for one call), half of
    # them on problems whose solves fail
    longs = long_sequences(500 if q else 4000, 8 if q else 12, seed() + 17)
    for li, s_ in enumerate(longs):
        jobs.append(((hard if li % 2 else problems)[li % len(hard if li % 2 else problems)], s_, None))
    fails, stats, samples, extra = par.run_workers("harness.opt_driver", {"jobs": jobs, "scratch": scratch, "seed": seed(), "max_faults": 4 if q else 12},
                                                    14, collect=("traces", "readables"))
    traces, readables = [], {}
    for key in sorted(extra["traces"]):
        for t, rd in zip(extra["traces"][key], extra["readables"][key]):
            readables[len(traces)] = rd
            traces.append(t)
    verdicts, tstates = validate(traces)
    # the same sessions as behaviours of the protocol model: for every call TLC searches the micro-steps of OptProto.tla for a path to the logged state
    rejected, pstates = optproto.validate(traces)
    nrej = collections.Counter()
    for ti in sorted(rejected):
        acc, n = rejected[ti]
        t = traces[ti]
        evf = dict(t["events"][acc], nk=t["nk"])
        pr = optproto.attribute(evf)
        nrej[pr] += 1
        if pr == prop:
            spec, calls, fmode = jobs[t["job"]]
            evr = readables[ti]["events"][acc]
            v.violation(f"[OptProto.tla] call {acc + 1} ({evr['ev']} -> {evr['out']}) of trace job={t['job']} fault={t.get('fault')} is not a behaviour of the protocol: "
                        f"no sequence of its micro-steps leads from the state before the call to the logged rows / knobs / flags / outcome",
                        {"engine": "opt_proto", "problem": {k: spec[k] for k in spec}, "fault": t.get("fault"), "calls": calls, "accepted_calls": acc,
                         "events": readables[ti]["events"], "env": t["env"]})
    nclauses = collections.Counter()
    for ti, bad in verdicts.items():
        mine = [(l, c) for l, c in bad if c.startswith(prop + ".")]
        for l, c in mine:
            nclauses[c] += 1
        if mine:
            t = traces[ti]
            spec, calls, fmode = jobs[t["job"]]
            l, c = mine[0]
            evr = readables[ti]["events"][l - 1]
            v.violation(f"[Optimizer.tla] call {l} ({evr['ev']} -> {evr['out']}) of trace job={t['job']} fault={t.get('fault')} violates {c}"
                        + (f" (and {len(mine) - 1} more clause instances)" if len(mine) > 1 else ""),
                        {"engine": "opt_trace", "problem": {k: spec[k] for k in spec}, "fault": t.get("fault"), "calls": calls, "violated": mine,
                         "events": readables[ti]["events"]})
    for s in list(readables.values())[:2]:
        v.sample({"calls": [e["ev"] + "->" + e["out"] for e in s["events"]], "first_event": {k: s["events"][0][k] for k in ("ev", "out", "af")}})
    v.add(stats["events"])
    v.set(states=tstates + pstates + r0.distinct + rm.distinct, transitions=2 * stats["events"] + r0.states + rm.states,
          design_model={"module": "OptProto.tla / MC_OptProto.tla", "invariants": minvs, "distinct_states": rm.distinct, "depth": rm.depth, "exhaustive": True,
                        "probes_reached": reached if reached is not None else "thorough tier / ./check selftest"},
          protocol_traces={"module": "OptProtoTrace.tla", "traces": len(traces), "rejected_by_property": dict(nrej), "states": pstates}, traces_validated_against_impl=stats["traces"],
          distinct_nontrivial=stats["failing_calls"] + stats["twin_checked"], call_sequences_enumerated=len(seqs), problems=nprob,
          driver_stats=dict(stats), flag_log_solver_sequences_of_4=len(r4), long_histories={"behaviours": len(longs), "calls_each": len(longs[0])}, violated_clause_instances=dict(nclauses), exhaustive=False)
    v.assume("the numeric content of every measurement (penalties, tolerances, limits, step sizes) is computed by the harness oracle from the user function; TLC decides "
             "what the optimizer did with them (order-preserving / injective integer abstractions: interned points, penalty ranks, ppm ratios, ulp distances)",
             "merit functions are deterministic and come from generated families (linear consistent / inconsistent / rank-deficient, quadratic, trigonometric; 1-4 knobs, 1-5 targets)",
             "start points lie inside the limits; unit knob weights give exact bounds, other positive weights are allowed 4 ulp / 20 ppm")
    return v.finish()


RULE = ("OptProto.tla (the step / solve / reload / tag / clear_log / enable / disable protocol over an abstract solver and an action that may raise at every "
        "evaluation) is explored exhaustively for the invariants of this property over the design environments of MC_OptProto.tla; the code is bound by traces, "
        "checked twice: OptProtoTrace.tla searches, for every recorded call, a path of the protocol's micro-steps to the logged state (environment = oracle "
        "measurements of the visited points), and Optimizer.tla evaluates the named clauses: "
        "OptCalls.tla enumerates every call sequence of length <= 3 (4 thorough) over step (n, take_best, broyden, temporary disable_vary / disable_vary_name / "
        "disable_target / enable_vary) / solve / reload(first, last, mid, tag) / tag / clear_log / enable / disable; sampled sequences are executed on real Optimize objects over "
        "seeded problems (limits placing the solution outside, per-knob max_step, unit and non-unit weights, Broyden), fault-free and with the user's action raising at "
        "each call position (once / persistently), each next to a twin problem whose designated target computes something else; every call is recorded with oracle "
        "measurements and validated by the trace specification of Optimizer.tla, which reports each violated clause by name. "
        "non-trivial = calls that failed plus calls whose twin comparison applied (a target was disabled throughout)")


def c09():
    return run("C09", "model_checking", RULE)


def c10():
    return run("C10", "model_checking", RULE)


def c15():
    return run("C15", "model_checking", RULE)
