"""Engine for Optimizer.tla (C09, C10, C15): TLC enumerates call sequences (OptCalls.tla), the driver executes them on real Optimize
objects over generated merit-function families (with fault injection in the user's action), and the recorded calls are validated
against the trace specification of Optimizer.tla, which names every violated clause."""
import collections, json, os, random, re, shutil, tempfile, concurrent.futures as cf
from . import tlc, build, par, tlaval
from .common import SPEC, Machinery, Verdict, seed, tier as get_tier
from . import opt_driver as od

GEN = os.path.join(SPEC, "gen")


def call_sequences(maxlen):
    os.makedirs(GEN, exist_ok=True)
    cfg = os.path.join(GEN, f"OptCalls_{maxlen}.cfg")
    open(cfg, "w").write(f"INIT Init\nNEXT Next\nCONSTANTS\n  MaxLen = {maxlen}\n  Menu <- FullMenu\nINVARIANT Emit\n")
    r = tlc.run("OptCalls.tla", cfg, workers=4, timeout=1200)
    if r.violation:
        raise Machinery("OptCalls.tla: " + r.violation[:1000])
    seqs = []
    for line in r.out.splitlines():
        if line.startswith('"[\\"SEQ'):
            seqs.append(json.loads(json.loads(line))[1])
    seqs.sort(key=lambda s: json.dumps(s, sort_keys=True))
    return seqs, r


def validate(traces, workers=6, batch=400):
    """-> {index into traces: [(event number, clause), ...]} for traces with violated clauses; raises Machinery if a trace got no verdict"""
    verdicts = {}
    batches = [list(range(i, min(i + batch, len(traces)))) for i in range(0, len(traces), batch)]

    def run(idx):
        fd, path = tempfile.mkstemp(prefix="xdv-opt-", suffix=".json")
        with os.fdopen(fd, "w") as fh:
            json.dump([{k: traces[i][k] for k in ("nk", "init", "events")} for i in idx], fh)
        try:
            r = tlc.run("Optimizer.tla", os.path.join(SPEC, "OptimizerTrace.cfg"), workers=1, env={"TRACE_FILE": path}, timeout=3000, heap="3g")
        finally:
            os.remove(path)
        if r.violation:
            raise Machinery("trace validation run failed: " + r.violation[:1500])
        out = {}
        buf = None
        for line in r.out.splitlines():
            if buf is None and re.match(r'<<\s*"VERDICT"', line):
                buf = ""
            if buf is not None:
                buf += " " + line
                if buf.count("<<") == buf.count(">>") and buf.count("{") == buf.count("}"):
                    v = tlaval.parse(buf)
                    out[idx[v[1] - 1]] = sorted((x[0], x[1]) for x in v[3])
                    buf = None
        missing = [i for i in idx if i not in out]
        if missing:
            raise Machinery(f"{len(missing)} traces were not consumed by Optimizer.tla (first: job {traces[missing[0]].get('job')}):\n{r.out[-1500:]}")
        return out, r

    states = 0
    with cf.ThreadPoolExecutor(max_workers=workers) as ex:
        for out, r in ex.map(run, batches):
            verdicts.update(out)
            states += r.distinct
    return verdicts, states


def design_model(prop, q):
    """The protocol model (abstract solver, raising action at every evaluation) explored exhaustively: the invariants named after `prop`."""
    invs = [i for i in ("C09_ok", "C09_restore", "C10_inlim", "C10_flags", "C10_fixed", "C15_best", "C15_reload", "C15_last") if i.startswith(prop)]
    cfg = os.path.join(tempfile.mkdtemp(prefix="optmodel-"), "OptimizerModel.cfg")
    with open(cfg, "w") as fh:
        fh.write("SPECIFICATION Spec\nCONSTANTS\n  MaxCalls = %d\n  MaxFaults = 2\n  Restore = TRUE\n"
                 '  Scenarios = {"converges", "inconsistent", "matched-start", "nonmonotone"}\n' % (2 if q else 3))
        fh.write("".join("INVARIANT %s\n" % i for i in invs) + "CHECK_DEADLOCK FALSE\n")
    r = tlc.run("OptimizerModel.tla", cfg, workers=14, timeout=3000, heap="8g")
    shutil.rmtree(os.path.dirname(cfg), ignore_errors=True)
    if not r.ok:
        raise Machinery("OptimizerModel.tla does not satisfy %s any more (a change of the specification, not of the code):\n%s" % (invs, (r.violation or r.out)[-3000:]))
    return r, invs


def run(prop, level, rule):
    q = get_tier() == "quick"
    v = Verdict(prop, level, get_tier(), rule)
    rm, minvs = design_model(prop, q)
    scratch = build.build("pure")
    rnd = random.Random(seed())
    seqs, r0 = call_sequences(3 if q else 4)
    nprob = 400 if q else 2000
    problems = [od.gen_problem(rnd, i) for i in range(nprob)]
    jobs = []
    # half of the sampled sequences are drawn from those in which solver calls interact with flag changes / reloads (at least two
    # step/solve calls and one enable/disable/reload/clear_log): contracts about "the most recent point" vs "some earlier point" live there
    rich = [s for s in seqs if sum(c["ev"] in ("Solve", "Step") for c in s) >= 2 and any(c["ev"] in ("Enable", "Disable", "Reload", "ClearLog") for c in s)] or seqs
    for p in problems:
        for s in rnd.sample(seqs, 4 if q else 12) + rnd.sample(rich, 4 if q else 12):
            jobs.append((p, s, None))
        # sequences that contain a solve / a step, with the user's action raising at every call position
        withsolve = [s for s in seqs if any(c["ev"] in ("Solve", "Step") for c in s)]
        for s in rnd.sample(withsolve, 2 if q else 6):
            jobs.append((p, s, rnd.choice(["once", "always"])))
    fails, stats, samples, extra = par.run_workers("harness.opt_driver", {"jobs": jobs, "scratch": scratch, "seed": seed(), "max_faults": 4 if q else 12},
                                                    14, collect=("traces", "readables"))
    traces, readables = [], {}
    for key in sorted(extra["traces"]):
        for t, rd in zip(extra["traces"][key], extra["readables"][key]):
            readables[len(traces)] = rd
            traces.append(t)
    verdicts, tstates = validate(traces)
    nclauses = collections.Counter()
    for ti, bad in verdicts.items():
        mine = [(l, c) for l, c in bad if c.startswith(prop + ".")]
        for l, c in mine:
            nclauses[c] += 1
        if mine:
            t = traces[ti]
            spec, calls, fmode = jobs[t["job"]]
            l, c = mine[0]
            evr = readables[ti]["events"][l - 1]
            v.violation(f"[Optimizer.tla] call {l} ({evr['ev']} -> {evr['out']}) of trace job={t['job']} fault={t.get('fault')} violates {c}"
                        + (f" (and {len(mine) - 1} more clause instances)" if len(mine) > 1 else ""),
                        {"engine": "opt_trace", "problem": {k: spec[k] for k in spec}, "fault": t.get("fault"), "calls": calls, "violated": mine,
                         "events": readables[ti]["events"]})
    for s in list(readables.values())[:2]:
        v.sample({"calls": [e["ev"] + "->" + e["out"] for e in s["events"]], "first_event": {k: s["events"][0][k] for k in ("ev", "out", "af")}})
    v.add(stats["events"])
    v.set(states=tstates + r0.distinct + rm.distinct, transitions=stats["events"] + r0.states + rm.states,
          design_model={"module": "OptimizerModel.tla", "invariants": minvs, "distinct_states": rm.distinct, "depth": rm.depth, "exhaustive": True}, traces_validated_against_impl=stats["traces"],
          distinct_nontrivial=stats["failing_calls"] + stats["twin_checked"], call_sequences_enumerated=len(seqs), problems=nprob,
          driver_stats=dict(stats), violated_clause_instances=dict(nclauses), exhaustive=False)
    v.assume("the numeric content of every measurement (penalties, tolerances, limits, step sizes) is computed by the harness oracle from the user function; TLC decides "
             "what the optimizer did with them (order-preserving / injective integer abstractions: interned points, penalty ranks, ppm ratios, ulp distances)",
             "merit functions are deterministic and come from generated families (linear consistent / inconsistent / rank-deficient, quadratic, trigonometric; 1-4 knobs, 1-5 targets)",
             "start points lie inside the limits; unit knob weights give exact bounds, other positive weights are allowed 4 ulp / 20 ppm")
    return v.finish()


RULE = ("OptimizerModel.tla (the step / solve / reload / tag / clear_log / enable / disable protocol over an abstract solver and an action that may raise at every "
        "evaluation) is explored exhaustively for the invariants of this property; the code is bound by traces: "
        "OptCalls.tla enumerates every call sequence of length <= 3 (4 thorough) over step (n, take_best, broyden, temporary disable_vary / disable_vary_name / "
        "disable_target / enable_vary) / solve / reload(first, last, mid, tag) / tag / clear_log / enable / disable; sampled sequences are executed on real Optimize objects over "
        "seeded problems (limits placing the solution outside, per-knob max_step, unit and non-unit weights, Broyden), fault-free and with the user's action raising at "
        "each call position (once / persistently), each next to a twin problem whose designated target computes something else; every call is recorded with oracle "
        "measurements and validated by the trace specification of Optimizer.tla, which reports each violated clause by name. "
        "non-trivial = calls that failed plus calls whose twin comparison applied (a target was disabled throughout)")


def c09():
    return run("C09", "model_checking", RULE)


def c10():
    return run("C10", "model_checking", RULE)


def c15():
    return run("C15", "model_checking", RULE)
