"""pytest plugin / runpy driver: runs the repository's own tests and examples on the scratch build with the harness-side recorder
installed (no source patch) and writes one trace per Manager to the file named by XDEPS_VERIF_TRACE (the guard of MANIFEST.hooks:
without it nothing is recorded)."""
import json, os, sys


def _install():
    import xdeps
    from harness import mgr_record
    mgr_record.install(xdeps)
    return mgr_record


def _dump(mr, path, label):
    traces = []
    for r in mr.RECORDERS:
        if any(e["ev"] == "Begin" for e in r.events):
            t = r.trace()
            t["item"] = [label, len(traces)]
            t["driver_outcome"] = "ok"
            traces.append(t)
    with open(path, "w") as fh:
        json.dump(traces, fh)


def pytest_configure(config):
    if os.environ.get("XDEPS_VERIF_TRACE"):
        config._xdv = _install()
        for r in config._xdv.RECORDERS:
            pass


def pytest_runtest_setup(item):
    mr = getattr(item.config, "_xdv", None)
    if mr is not None:
        item._xdv_n0 = len(mr.RECORDERS)


def pytest_runtest_teardown(item):
    mr = getattr(item.config, "_xdv", None)
    if mr is not None:
        for r in mr.RECORDERS[getattr(item, "_xdv_n0", 0):]:
            r.idx_every = 0
            r.notes["test"] = item.nodeid
            if len(r.m.tasks) <= 200 and any(e["ev"] == "Begin" for e in r.events):
                try:
                    r.idx_event()          # index supports at the end of the test
                except Exception:
                    pass


def pytest_sessionfinish(session, exitstatus):
    mr = getattr(session.config, "_xdv", None)
    if mr is not None:
        _dump(mr, os.environ["XDEPS_VERIF_TRACE"], "repo-tests")


def run_examples(paths, out):
    import runpy, io, contextlib
    mr = _install()
    ran = []
    for p in paths:
        n0 = len(mr.RECORDERS)
        try:
            with contextlib.redirect_stdout(io.StringIO()), contextlib.redirect_stderr(io.StringIO()):
                runpy.run_path(p, run_name="__main__")
            ran.append([p, "ok"])
        except BaseException as ex:       # an example may need packages that are not installed
            ran.append([p, type(ex).__name__])
        for r in mr.RECORDERS[n0:]:
            r.notes["example"] = p
    _dump(mr, out, "repo-examples")
    return ran


if __name__ == "__main__":
    print(json.dumps(run_examples(sys.argv[2:], sys.argv[1])))
