"""Shared plumbing for every check: paths, seeds, evidence, verdict lines, known findings."""
import json, os, re, sys, time, hashlib, random

VERIF = os.path.dirname(os.path.dirname(os.path.abspath(__file__)))
REPO = os.environ.get("VERIF_REPO", "/repo")
SPEC = os.path.join(VERIF, "spec")
EVID = os.environ.get("VERIF_EVID", os.path.join(VERIF, "evidence"))        # overridden only by tools/seed_eval_wt.sh (seeded changes evaluated on a scratch tree)
REPLAYS = os.environ.get("VERIF_REPLAYS", os.path.join(VERIF, "replays"))
CACHE = os.path.join(VERIF, ".cache")
KNOWN = os.path.join(VERIF, "known_findings.txt")

EXIT_OK, EXIT_VIOLATION, EXIT_MACHINERY = 0, 1, 2


class Machinery(Exception):
    """The checking machinery itself failed (exit 2): never a statement about the code."""


def seed():
    try:
        return int(os.environ.get("VERIF_SEED", "0"))
    except ValueError:
        return 0


def tier(default="quick"):
    t = os.environ.get("VERIF_TIER", default)
    return t if t in ("quick", "thorough") else default


def load_known():
    """known_findings.txt, one finding per line:
         known: property=<id> key=<predicate key> <what fails>      -> reported as KNOWN-FINDING, exit 0
         fixed: property=<id> <commit> <what failed>                -> suppresses nothing (documentation)
    The file is read-only for the checks."""
    out = []
    if os.path.exists(KNOWN):
        for line in open(KNOWN):
            line = line.strip()
            if not line or line.startswith("#"):
                continue
            m = re.match(r"known:\s+property=(\S+)\s+key=(\S+)\s+(.*)$", line)
            if m:
                out.append({"status": "known", "property": m.group(1), "key": m.group(2), "what": m.group(3)})
                continue
            m = re.match(r"fixed:\s+property=(\S+)\s+(\S+)\s+(.*)$", line)
            if m:
                out.append({"status": "fixed", "property": m.group(1), "commit": m.group(2), "what": m.group(3)})
    return out


class Verdict:
    """Collects violations / known findings for ONE property check and writes evidence."""

    def __init__(self, prop, level, tier_, rule):
        self.prop, self.level, self.tier = prop, level, tier_
        self.t0 = time.time()
        self.violations = []          # (summary, replay_path)
        self.known_hits = {}          # key -> [count, first witness]
        self.cov = {"rule": rule, "samples": [], "evaluations": 0, "distinct_nontrivial": 0}
        self.assumptions = []
        self._known = [k for k in load_known() if k.get("status") == "known" and k.get("property") == prop]
        self._nontrivial = set()

    # -- coverage -----------------------------------------------------
    def add(self, n=1):
        self.cov["evaluations"] += n

    def nontrivial(self, key):
        self._nontrivial.add(key if isinstance(key, (str, int, tuple)) else json.dumps(key, sort_keys=True, default=str))

    def sample(self, s, cap=6):
        if len(self.cov["samples"]) < cap:
            self.cov["samples"].append(s)

    def set(self, **kw):
        self.cov.update(kw)

    def assume(self, *a):
        for x in a:
            if x not in self.assumptions:
                self.assumptions.append(x)

    # -- findings -------------------------------------------------------
    def known_key(self, key):
        for k in self._known:
            if k.get("key") == key:
                return k
        return None

    def violation(self, summary, replay, known_key=None):
        """replay: JSON-serialisable dict written to replays/.  If known_key names an entry of
        known_findings.jsonl (status known, same property) the hit is reported as KNOWN-FINDING."""
        if known_key is not None and self.known_key(known_key) is not None:
            ent = self.known_hits.setdefault(known_key, [0, summary])
            ent[0] += 1
            return False
        if len(self.violations) < 25:
            os.makedirs(REPLAYS, exist_ok=True)
            h = hashlib.sha1(json.dumps(replay, sort_keys=True, default=str).encode()).hexdigest()[:10]
            path = os.path.join(REPLAYS, f"{self.prop}-{h}.json")
            replay = dict(replay)
            replay.setdefault("property", self.prop)
            replay.setdefault("summary", summary)
            replay.setdefault("seed", seed())
            replay.setdefault("tier", self.tier)
            with open(path, "w") as f:
                json.dump(replay, f, indent=1, default=str)
            self.violations.append((summary, path))
        else:
            self.violations.append((summary, self.violations[0][1]))
        return True

    def finish(self):
        wall = time.time() - self.t0
        self.cov["distinct_nontrivial"] = max(self.cov.get("distinct_nontrivial", 0), len(self._nontrivial))
        for key, (n, first) in self.known_hits.items():
            k = self.known_key(key)
            print(f"KNOWN-FINDING: property={self.prop} {k.get('what', key)} [{n} occurrence(s) this run; first: {first}]")
        ev = {
            "property_id": self.prop, "tier": self.tier, "seed": seed(), "level": self.level,
            "coverage": self.cov, "assumptions": self.assumptions, "wall_s": round(wall, 2),
            "violations": len(self.violations),
        }
        ev["coverage"]["known_finding_hits"] = {k: v[0] for k, v in self.known_hits.items()}
        os.makedirs(EVID, exist_ok=True)
        with open(os.path.join(EVID, f"{self.prop}.json"), "w") as f:
            json.dump(ev, f, indent=1, default=str)
        seen = set()
        for summary, path in self.violations:
            if path in seen:
                continue
            seen.add(path)
            print(f"VIOLATION property={self.prop} replay={path}")
            print(f"  {summary}")
        n = len(self.violations)
        print(f"[{self.prop}] tier={self.tier} seed={seed()} evaluations={self.cov['evaluations']} "
              f"nontrivial={self.cov['distinct_nontrivial']} violations={n} wall={wall:.1f}s")
        return EXIT_VIOLATION if n else EXIT_OK


def rng(extra=""):
    return random.Random(f"{seed()}/{extra}")
