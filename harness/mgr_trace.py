"""Second stage of C01 / C02 / C03: executions of the real manager recorded by harness-side wrappers (mgr_record) and validated by
ManagerTrace.tla.  One TLC run per batch of traces; verdict lines name the violated clauses."""
import collections, json, os, re, tempfile, concurrent.futures as cf
from . import tlc, build, par, tlaval
from .common import SPEC, Machinery, seed, tier as get_tier


def validate(traces, batch_events=60000):
    batches, cur, n = [], [], 0
    for i, t in enumerate(traces):
        if cur and n + len(t["events"]) > batch_events:
            batches.append(cur)
            cur, n = [], 0
        cur.append(i)
        n += len(t["events"])
    if cur:
        batches.append(cur)

    def run(idx):
        fd, path = tempfile.mkstemp(prefix="xdv-mtr-", suffix=".json")
        with os.fdopen(fd, "w") as fh:
            json.dump([{k: traces[i][k] for k in ("par", "tasks", "events")} for i in idx], fh)
        try:
            r = tlc.run("ManagerTrace.tla", os.path.join(SPEC, "ManagerTrace.cfg"), workers=1, env={"TRACE_FILE": path}, timeout=3000, heap="6g", xss="256m")
        finally:
            os.remove(path)
        if r.violation:
            raise Machinery("ManagerTrace.tla run failed: " + r.violation[:1500])
        out, buf = {}, None
        for line in r.out.splitlines():
            if buf is None and re.match(r'<<\s*"VERDICT"', line):
                buf = ""
            if buf is not None:
                buf += " " + line
                if buf.count("<<") == buf.count(">>") and buf.count("{") == buf.count("}"):
                    v = tlaval.parse(buf)
                    out[idx[v[1] - 1]] = sorted((x[0], x[1]) for x in v[3])
                    buf = None
        missing = [i for i in idx if i not in out]
        if missing:
            raise Machinery(f"{len(missing)} manager traces were not consumed by ManagerTrace.tla (first: {traces[missing[0]].get('item')}):\n{r.out[-2500:]}")
        return out, r

    verdicts, states = {}, 0
    with cf.ThreadPoolExecutor(max_workers=6) as ex:
        for out, r in ex.map(run, batches):
            verdicts.update(out)
            states += r.distinct
    return verdicts, states


REPO_TESTS = ["tests/test_tasks.py", "tests/test_xdeps.py", "tests/test_refs.py"]
REPO_EXAMPLES = ["ex_expr.py", "ex_global.py", "ex_inplace_op.py", "ex_pickle.py", "ex_set.py", "ex_unregister.py", "ex_talk.py", "ex_verify.py", "tasks.py"]


def repo_traces(scratch):
    """the repository's own tests and examples on the scratch build, under the recorder (harness/rec_plugin.py; guard XDEPS_VERIF_TRACE).
    test_manager_clone_verify_refresh corrupts the indices behind the manager's back on purpose and test_collisions registers 100000
    tasks: both are left out.  -> (traces, info)"""
    import subprocess
    from .common import REPO, VERIF
    out, info = [], {}
    fd, path = tempfile.mkstemp(prefix="xdv-rt-", suffix=".json")
    os.close(fd)
    env = dict(os.environ, PYTHONPATH=f"{scratch}:{VERIF}", XDEPS_VERIF_TRACE=path, PYTHONHASHSEED="0")
    try:
        tests = [os.path.join(REPO, t) for t in REPO_TESTS if os.path.exists(os.path.join(REPO, t))]
        r = subprocess.run(["/venv/bin/python", "-m", "pytest", "-q", "-p", "no:cacheprovider", "-p", "harness.rec_plugin", "--timeout=600", *tests,
                            "-k", "not test_manager_clone_verify_refresh and not test_collisions"], env=env, cwd=REPO,
                           stdout=subprocess.PIPE, stderr=subprocess.STDOUT, text=True)
        info["repo_tests"] = r.stdout.strip().splitlines()[-1][:120] if r.stdout.strip() else "no output"
        if os.path.getsize(path):
            out += json.load(open(path))
        exs = [os.path.join(REPO, "examples", e) for e in REPO_EXAMPLES if os.path.exists(os.path.join(REPO, "examples", e))]
        r = subprocess.run(["/venv/bin/python", "-m", "harness.rec_plugin", path, *exs], env=env, cwd=tempfile.gettempdir(),
                           stdout=subprocess.PIPE, stderr=subprocess.STDOUT, text=True)
        try:
            info["repo_examples"] = {os.path.basename(p): o for p, o in json.loads(r.stdout.strip().splitlines()[-1])}
            out += json.load(open(path))
        except Exception:
            info["repo_examples"] = "recorder run failed: " + r.stdout[-200:]
    finally:
        os.remove(path)
    return out, info


def stage(v, prop, modes=("compiled",)):
    """adds the trace-validation coverage and violations of property `prop` to Verdict v"""
    q = get_tier() == "quick"
    items = [("random", seed() * 100003 + i) for i in range(120 if q else 1500)]
    items += [("chain", 1200 if q else 5000), ("chain_rev", 300 if q else 1000), ("fan", 600 if q else 2000), ("chain", 40), ("chain_rev", 40)]
    stats = collections.Counter()
    tstates = 0
    for mode in modes:
        scratch = build.build(mode)
        fails, st, samples, extra = par.run_workers("harness.mgr_record", {"items": items, "scratch": scratch, "mode": mode}, 12, collect=("traces",))
        stats.update(st)
        traces = [t for key in sorted(extra["traces"]) for t in extra["traces"][key] if any(e["ev"] == "Begin" for e in t["events"])]   # (verify() clones managers)
        rt, rinfo = repo_traces(scratch)
        traces += rt
        stats["repo_traces"] += len(rt)
        stats["events"] += sum(len(t["events"]) for t in rt)
        v.cov.setdefault("repo_runs_under_recorder", {})[mode] = rinfo
        verdicts, ts = validate(traces)
        tstates += ts
        known = 0
        for ti, bad in verdicts.items():
            t = traces[ti]
            known += sum(1 for l, c in bad if c == "KNOWN.struct-cycle-order")
            mine = [(l, c) for l, c in bad if c.startswith(prop + ".")]
            if t.get("driver_outcome", "ok") != "ok" and prop == "C01" and not mine and "Recursion" in t["driver_outcome"]:
                mine = [(len(t["events"]), "C01.update-fails-on-a-long-chain-of-dependants")]
            if mine:
                l, c = mine[0]
                lo = max(0, l - 12)
                v.violation(f"[ManagerTrace.tla {mode}] event {l} of the recorded trace {t['item']} violates {c}" + (f" (+{len(mine) - 1} more)" if len(mine) > 1 else ""),
                            {"engine": "mgr_trace", "item": t["item"], "mode": mode, "violated": mine[:20], "events_before": t["events"][lo:l],
                             "tasks": {i + 1: t["tasks"][i] for i in sorted({e.get("t", 1) - 1 for e in t["events"][lo:l] if e.get("t")})}, "par": t["par"][:80]})
        if known and v.known_key("struct-cycle-order") is not None:
            ent = v.known_hits.setdefault("struct-cycle-order", [0, "recorded trace with a structural-cycle update"])
            ent[0] += known
    v.cov["rule"] += (" || second stage, ManagerTrace.tla (code -> spec): seeded random histories over 30 nested locations x 60 calls (consumer-before-producer definitions, "
                      "redefinitions, in-place operators, unregister), chains of 1200 (5000 thorough) tasks defined producer-first and of 300 (1000) defined consumer-first, a 600 (2000) wide fan, and the repository's own tests (test_tasks, test_xdeps, test_refs) and examples, recorded by "
                      "harness-side wrappers and validated event by event: every Task.run triggered / at most once / not after a consumer, nothing triggered left un-run, no "
                      "expression-defined location stale at return (pull-model re-evaluation), index supports = derived from the registered tasks")
    for k in ("states",):
        v.cov[k] = v.cov.get(k, 0) + tstates
    v.cov["transitions"] = v.cov.get("transitions", 0) + stats["events"]
    v.cov["traces_validated_against_impl"] = v.cov.get("traces_validated_against_impl", 0) + stats["traces"]
    v.cov["trace_stage"] = dict(stats)
    v.add(stats["events"])
