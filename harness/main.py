import os, sys, traceback


def main(argv):
    args = list(argv)
    if not args:
        print("usage: check <property id>|replay <file>|selftest [--tier quick|thorough] [--seed N]")
        return 2
    cmd = args.pop(0)
    while args:
        a = args.pop(0)
        if a == "--tier":
            os.environ["VERIF_TIER"] = args.pop(0)
        elif a == "--seed":
            os.environ["VERIF_SEED"] = args.pop(0)
        else:
            os.environ.setdefault("VERIF_ARG", a)
    os.environ.setdefault("PYTHONHASHSEED", "0")
    from .common import Machinery, EXIT_MACHINERY
    try:
        from . import props
        if cmd == "selftest":
            from . import selftest
            return selftest.main()
        if cmd == "replay":
            return props.replay(os.environ.get("VERIF_ARG"))
        if cmd not in props.REGISTRY:
            print(f"unknown property {cmd}; known: {sorted(props.REGISTRY)}")
            return EXIT_MACHINERY
        return props.REGISTRY[cmd]()
    except Machinery as m:
        print(f"MACHINERY FAILURE (exit 2, says nothing about the code): {m}")
        return EXIT_MACHINERY
    except Exception:
        traceback.print_exc()
        print("MACHINERY FAILURE (exit 2, says nothing about the code)")
        return EXIT_MACHINERY


if __name__ == "__main__":
    sys.exit(main(sys.argv[1:]))
