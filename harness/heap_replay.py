"""Direction A for TableHeap.tla (C14): every generated transition replayed on real xdeps.Table objects; after each step ALL live
tables are compared with the specification's heap (rectangularity, column list, scalar entries, cells unless Unknown)."""
import collections
import numpy as np

UNKNOWN = -999
VARIANTS = ("fi", "oi")


def enc(variant, col, v):
    if col == "s":
        return f"s{v}" if variant == "fi" else (v,)
    if col in ("a", "w") or "+" in col or "*" in col or "-" in col:
        return float(v) if variant == "fi" else int(v)
    if col == "b":
        return int(v)
    raise KeyError(col)


def dec(x):
    if isinstance(x, str):
        return int(x[1:])
    if isinstance(x, tuple):
        return int(x[0])
    f = float(x)
    return int(f) if f == int(f) else f


def arr(variant, col, vals):
    xs = [enc(variant, col, v) for v in vals]
    if col == "s":
        if variant == "fi":
            return np.array(xs, dtype="U8") if xs else np.array([], dtype="U8")
        a = np.empty(len(xs), dtype=object)
        for i, x in enumerate(xs):
            a[i] = x
        return a
    if col == "b" and variant == "oi":
        a = np.empty(len(xs), dtype=object)
        for i, x in enumerate(xs):
            a[i] = x
        return a
    return np.array(xs, dtype=float if isinstance(enc(variant, col, 0), float) else int)


# the non-column entries of the root tables are vectors: every length occurs as the row count of some derived table
HV = {"q": np.array([1.5, 2.5]), "r": np.array([9.5]), "u": np.array([1, 2, 3])}


def mk_table(spec, variant):
    import xdeps
    data = {}
    for c in spec["order"]:
        data[c] = np.array(list(spec["names"]), dtype="U4") if c == "name" else arr(variant, c, spec["cols"][c])
    for k in spec["sc"]:
        data[k] = HV[k].copy() if k in HV else 1.5
    return xdeps.Table(data, col_names=list(spec["order"]), index="name")


def execute(tabs, lab, variant):
    """-> (exception class name or None, query result or None)"""
    import xdeps
    a = lab["a"]
    try:
        if a == "Rows":
            t, sel = tabs[lab["i"] - 1], lab["sel"]
            k = sel["k"]
            if k == "slice":
                r = t.rows[sel["lo"]:sel["hi"]]
            elif k == "list":
                r = t.rows[list(sel["pos"])]
            elif k == "mask":
                m = np.zeros(len(t), dtype=bool)
                m[list(sel["pos"])] = True
                r = t.rows[m]
            elif k == "name":
                r = t.rows[sel["name"]]
            elif k == "reverse":
                r = t.rows.reverse()
            else:
                raise KeyError(k)
            tabs.append(r)
        elif a == "Cols":
            t = tabs[lab["i"] - 1]
            tabs.append(t.cols[list(lab["cs"])] if lab["form"] == "list" else t.cols[" ".join(lab["cs"])])
        elif a == "ColsAll":
            tabs.append(tabs[lab["i"] - 1].cols[:])
        elif a == "Query":
            return None, tabs[lab["i"] - 1][lab["e"]]
        elif a == "ColExpr":
            tabs.append(tabs[lab["i"] - 1].cols[lab["e"]])
        elif a == "Add":
            tabs.append(tabs[lab["i"] - 1] + tabs[lab["j"] - 1])
        elif a == "Concat":
            tabs.append(xdeps.Table.concatenate([tabs[lab["i"] - 1], tabs[lab["j"] - 1]]))
        elif a == "Mul":
            tabs.append(tabs[lab["i"] - 1] * lab["k"])
        elif a == "Copy":
            tabs.append(tabs[lab["i"] - 1]._copy())
        elif a == "Transpose":
            tabs.append(tabs[lab["i"] - 1]._t)
        elif a == "NewCol":
            t = tabs[lab["i"] - 1]
            t["w"] = arr(variant, "w", [40 + k for k in range(1, len(t) + 1)])
        elif a == "SetCol":
            tabs[lab["i"] - 1][lab["c"]] = enc(variant, lab["c"], 7)
        elif a == "SetColArr":
            t = tabs[lab["i"] - 1]
            cur = t._data[lab["c"]]
            # a full-length array whose dtype KIND differs from the stored column's (int <-> float)
            other = int if cur.dtype.kind == "f" else float
            t[lab["c"]] = np.array([other(8)] * len(t))
        elif a == "SetScalar":
            tabs[lab["i"] - 1]["z"] = 5
        else:
            raise KeyError(a)
    except Exception as ex:
        return type(ex).__name__ + ": " + str(ex)[:120], None
    return None, None


def compare(t, spec, src=None):
    """-> list of discrepancies between a real table and its specification"""
    bad = []
    if spec["kind"] == "transposed":
        s = spec["src"]
        n = len(s["names"])
        want_cols = ["columns"] + [f"row{k}" for k in range(n)]
        if list(t._col_names) != want_cols:
            bad.append(("transposed column list", list(t._col_names), want_cols))
        elif list(t._data["columns"]) != list(s["order"]):
            bad.append(("transposed index", list(t._data["columns"]), list(s["order"])))
        else:
            for c in want_cols:
                if len(t._data[c]) != len(s["order"]):
                    bad.append(("transposed column length", c, len(t._data[c]), len(s["order"])))
        if t._index != "columns":
            bad.append(("transposed index name", t._index))
        return bad
    n = len(spec["names"])
    cols = list(t._col_names)
    if spec["kind"] == "concat":
        if sorted(cols) != sorted(spec["order"]):
            bad.append(("column set", cols, spec["order"]))
    elif cols != list(spec["order"]):
        bad.append(("column list", cols, list(spec["order"])))
    if t._index not in cols:
        bad.append(("index column missing from the column list", t._index, cols))
    for c in cols:
        if c not in t._data:
            bad.append(("listed column absent", c))
        elif len(t._data[c]) != n:
            bad.append(("column length", c, len(t._data[c]), n))
    try:
        if len(t) != n:
            bad.append(("len(table)", len(t), n))
    except Exception as ex:
        bad.append(("len(table) raised", repr(ex)))
    sc = set(t.keys(exclude_columns=True))
    if sc != set(spec["sc"]):
        bad.append(("scalar entries", sorted(sc), sorted(spec["sc"])))
    for k in sorted(sc & set(HV)):
        got = t._data[k]
        if not (isinstance(got, np.ndarray) and got.shape == HV[k].shape and np.array_equal(got, HV[k])):
            bad.append(("non-column entry carried over changed", k, repr(got), repr(HV[k])))
    if bad:
        return bad
    if list(t._data["name"]) != list(spec["names"]):
        bad.append(("index column cells", list(t._data["name"]), list(spec["names"])))
    for c, vals in (spec["cols"].items() if isinstance(spec["cols"], dict) else []):
        got = [dec(x) for x in t._data[c]]
        for k, (g_, w_) in enumerate(zip(got, vals)):
            if w_ != UNKNOWN and g_ != w_:
                bad.append(("cell", c, k, g_, w_))
                break
    return bad


EXPRS = {"a+2*b": lambda a, b: a + 2 * b, "a*b": lambda a, b: a * b, "a-b": lambda a, b: a - b}


def expr_queries(tabs):
    """column expressions evaluate element-wise on the CURRENT columns of each table, whatever happened to tables sharing its arrays:
    t['a+2*b'], t['a+2*b', row] and t.cols['a+2*b'] against numpy on t['a'], t['b'] as they are now.  Run after every step."""
    bad = []
    for j, t in enumerate(tabs):
        if t._index != "name" or "a" not in t._col_names or "b" not in t._col_names:
            continue
        a, b = t._data["a"], t._data["b"]
        for e, f in EXPRS.items():
            try:
                want = f(a, b)
                got = t[e]
                ok = len(got) == len(want) and all(x == y for x, y in zip(got, want))
                if ok and len(t) > 0:
                    ok = t[e, 0] == want[0]
                if ok:
                    got2 = t.cols[e][e]
                    ok = len(got2) == len(want) and all(x == y for x, y in zip(got2, want))
                if not ok:
                    bad.append((j + 1, e, [dec(x) for x in got], [dec(x) for x in want]))
            except Exception as ex:
                bad.append((j + 1, e, "raised", repr(ex)[:100]))
    return bad


def name_queries(tabs, heap):
    """rows addressed by name on EVERY live table after every step (this is also what builds the name caches everywhere): first and
    last occurrence of each name of the table's index column, and an absent name, against a scan of the specification's column"""
    bad = []
    for j, (t, sp) in enumerate(zip(tabs, heap)):
        if sp["kind"] == "transposed" or t._index != "name":
            continue
        names = list(sp["names"])
        for n in sorted(set(names)) + ["zz"]:
            occ = [k for k, x in enumerate(names) if x == n]
            try:
                first = int(t.rows.get_index(n)) if occ else None
                if occ:
                    last = [int(k) for k in t.rows.indices[f"{n}::-1"]]
                    cnt = [int(k) for k in t.rows.indices[f"{n}::{len(occ) - 1}"]]
                    if first != occ[0] or last != [occ[-1]] or cnt != [occ[-1]]:
                        bad.append((j + 1, n, first, last, cnt, occ))
                else:
                    try:
                        t.rows.get_index(n)
                        bad.append((j + 1, n, "found an absent name"))
                    except KeyError:
                        pass
            except Exception as ex:
                bad.append((j + 1, n, "raised", repr(ex)[:100], occ))
    return bad


def worker(job, shard, nshards):
    g = job["graph"]
    states, edges, parent = g["states"], g["edges"], g["parent"]
    fails, stats, samples = [], collections.Counter(), []

    def path_to(sid):
        p = []
        while sid in parent:
            i = parent[sid]
            p.append(i)
            sid = edges[i][0]
        p.reverse()
        return sid, p

    # the BFS tree reaches each heap along ONE path, but different derivations give equal heaps (t.cols[:], t.rows[0:n], t._copy() all yield a
    # table equal to t): what the derived table shares with its source differs.  Every edge is therefore replayed once per KIND of last step
    # that leads to its source state (the BFS one first), up to `alts` alternatives.
    inedges = collections.defaultdict(list)
    for i_, (s_, l_, d_) in enumerate(edges):
        if s_ != d_ and l_.get("exc", "none") == "none":
            inedges[d_].append(i_)
    alts = job.get("alts", 4)
    work = []
    for ei in range(shard, len(edges), nshards):
        src = edges[ei][0]
        root, path = path_to(src)
        work.append((ei, root, path))
        if path:
            seen_kinds = {edges[path[-1]][1]["a"]}
            n_ = 0
            for pi_ in inedges.get(src, ()):
                k_ = edges[pi_][1]["a"]
                if k_ in seen_kinds or n_ >= alts:
                    continue
                seen_kinds.add(k_)
                n_ += 1
                r2, p2 = path_to(edges[pi_][0])
                work.append((ei, r2, p2 + [pi_]))
    for ei, root, path in work:
        src, lab, dst = edges[ei]
        variant = VARIANTS[ei % len(VARIANTS)]
        tabs = [mk_table(s, variant) for s in states[root]]
        expr_queries(tabs)
        name_queries(tabs, states[root])
        for pi in path:
            execute(tabs, edges[pi][1], variant)
            expr_queries(tabs)
            if len(tabs) == len(states[edges[pi][2]]):
                name_queries(tabs, states[edges[pi][2]])
        steps = [edges[i][1] for i in path] + [lab]
        stats["edges"] += 1

        def fail(summary, detail=None, tags=("C14",)):
            stats["fail"] += 1
            if len(fails) < 120:
                fails.append({"tags": list(tags), "summary": summary, "root": [[list(s["names"]), list(s["order"])] for s in states[root]], "path": steps,
                              "detail": dict(detail or {}, dtype_variant=variant)})
        exc, res = execute(tabs, lab, variant)
        want = lab.get("exc", "none")
        if (exc is None) != (want == "none") or (exc is not None and not exc.startswith(want)):
            fail(f"{lab['a']}({ {k: v for k, v in lab.items() if k not in ('a', 'sel')} }{lab.get('sel', {}).get('k', '')}): outcome {exc}, the specification says {want}")
            continue
        heap = states[dst]
        if len(tabs) != len(heap):
            fail(f"{lab['a']}: {len(tabs)} live tables, specification has {len(heap)}")
            continue
        if lab["a"] == "Query":
            got = [dec(x) for x in res]
            want_r = list(lab["r"])
            if len(got) != len(want_r) or any(w_ != UNKNOWN and g_ != w_ for g_, w_ in zip(got, want_r)):
                fail(f"t[{lab['e']!r}] evaluates to {got}, element-wise on the columns it is {want_r}")
            stats["nontrivial"] += 1
        ok = True
        for j, (t, sp) in enumerate(zip(tabs, heap)):
            bad = compare(t, sp)
            if bad:
                newest = (j == len(heap) - 1 and len(heap) > len(states[src]))
                fail(f"after {lab['a']}{'' if 'i' not in lab else '(table ' + str(lab['i']) + ')'}: table {j + 1} ({'the derived table' if newest else 'an existing table'}) "
                     f"differs from the specification: {bad[:3]}", {"bad": repr(bad)[:1200]})
                ok = False
                break
        if ok:
            eb = expr_queries(tabs)
            stats["expression_queries"] += 3 * len(tabs)
            if eb:
                fail(f"after {lab['a']}: column expression of table {eb[0][0]}: t[{eb[0][1]!r}] gives {eb[0][2]}, element-wise on its current columns it is {eb[0][3]}", {"bad": repr(eb)[:800]})
                ok = False
        if ok:
            nb = name_queries(tabs, heap)
            stats["name_queries"] += sum(len(set(sp["names"])) + 1 for sp in heap if sp["kind"] != "transposed")
            if nb:
                fail(f"after {lab['a']}: rows addressed by name on table {nb[0][0]}: {nb[0][1:]} (name, first, 'name::-1', 'name::count-1', positions in the column)", {"bad": repr(nb)[:800]},
                     tags=("C08", "C07"))
                ok = False
        if ok and len(heap) > 1:
            stats["nontrivial"] += 1
        if ok and len(samples) < 2 and len(steps) >= 3:
            samples.append({"steps": steps, "tables": [[list(t._col_names), len(t)] for t in tabs]})
    return {"fails": fails, "stats": dict(stats), "samples": samples}
