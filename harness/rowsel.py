"""Binding + executor for RowSel.tla (C08): one implementation test per enumerated (table, selector[, selector]) case."""
import collections, json
import numpy as np

NOCOUNT, NONE = 99, -99
PATTERNS = {frozenset("a"): ["a", "A"], frozenset("b"): ["b", "b.*"], frozenset("ab"): ["a|b", "[ab]"],
            frozenset("abc"): [".*", "[a-c]"], frozenset(): ["x", "q.*"]}


# variant 2: row names that are regular expressions matching EACH OTHER (names differing only by case; a name with a metacharacter): the selector
# that denotes {a, b} is then spelled exactly like the row name of a, and a look-up by name is made first (it changes nothing, says the specification)
NAMES2 = {"a": "q1", "b": "Q1", "c": "q."}
PATTERNS2 = {frozenset("a"): "(?-i:q1)", frozenset("b"): "(?-i:Q1)", frozenset("c"): "q\\.", frozenset("ab"): "q1", frozenset("ac"): "(?-i:q1)|q\\.",
             frozenset("bc"): "(?-i:Q1)|q\\.", frozenset("abc"): "q.", frozenset(): "x"}


def mk_table(t, names=None):
    import xdeps
    n = len(t)
    if names:
        t = [names[x] for x in t]
    return xdeps.Table({"name": np.array(list(t), dtype=object),
                        "v": np.array([(3 * i) % 5 for i in range(1, n + 1)], dtype=float),
                        "u": np.array([i // 2 for i in range(1, n + 1)], dtype=int)}, index="name")


def _end(e, names=None):
    if not e:
        return None
    n, c = e
    n = names[n] if names else n
    return n if c == NOCOUNT else f"{n}::{c}"


def concretise(s, variant):
    k = s["k"]
    if k == "pos":
        return s["i"]
    if k == "list":
        return list(s["l"]) if variant != 1 else np.array(s["l"], dtype=int)
    if k == "mask":
        return list(s["m"]) if variant != 1 else np.array(s["m"], dtype=bool)
    if k == "re":
        pats = PATTERNS[frozenset(s["R"])]
        p = pats[variant % len(pats)] if variant < 2 else PATTERNS2[frozenset(s["R"])]
        if s["c"] != NOCOUNT:
            p += f"::{s['c']}"
        if s["o"] > 0:
            p += f">>{s['o']}"
        elif s["o"] < 0:
            p += f"<<{-s['o']}"
        return p
    if k == "span":
        return slice(_end(s["a"], NAMES2 if variant == 2 else None), _end(s["b"], NAMES2 if variant == 2 else None))
    if k == "range":
        return slice(None if s["lo"] == NONE else s["lo"], None if s["hi"] == NONE else s["hi"], s["col"])
    if k == "slice":
        return slice(None if s["a"] == NONE else s["a"], None if s["b"] == NONE else s["b"], s["st"])
    raise KeyError(k)


def run_case(t, sels, exp, variant):
    """-> list of discrepancies"""
    names = NAMES2 if variant == 2 else None
    if names and any(s["k"] == "re" and s["c"] != NOCOUNT and PATTERNS2[frozenset(s["R"])] in (names[x] for x in t) for s in sels):
        # 'q1::0' where q1 is also the exact name of a row: the string has two documented readings (the row 'name::count' of C07, and the regular
        # expression with a count); the implementation takes the exact name when there is one.  Not demanded either way (DESIGN 8, ambiguity).
        return []
    tab = mk_table(t, names)
    if names:
        if len(t):
            tab["v", names[t[0]]]          # a look-up by name (builds whatever the table keeps for names); changes nothing
        t = [names[x] for x in t]
    cs = [concretise(s, variant) for s in sels]
    arg = cs[0] if len(cs) == 1 else tuple(cs)
    bad = []
    want_rows = exp["rows"] if exp["ok"] else None
    want = None if want_rows is None else ([t[p] for p in want_rows], [float((3 * (p + 1)) % 5) for p in want_rows])

    def attempt(label, fn):
        try:
            got = fn()
        except KeyError:
            got = "KeyError"
        except Exception as ex:
            got = f"{type(ex).__name__}: {ex}"[:120]
        return got

    def as_rows(res):
        return (list(res["name"]), [float(x) for x in res["v"]])

    got = attempt("rows", lambda: as_rows(tab.rows[arg]))
    if got != (want if exp["ok"] else "KeyError"):
        bad.append(("rows[...]", repr(arg), got, want if exp["ok"] else "KeyError"))
    if len(cs) >= 2:
        def chained():
            x = tab
            for c in cs:
                x = x.rows[c]
            return as_rows(x)
        got = attempt("rows.rows", chained)
        if got != (want if exp["ok"] else "KeyError"):
            bad.append(("rows[s1].rows[s2]" + (".rows[s3]" if len(cs) > 2 else ""), repr(arg), got, want if exp["ok"] else "KeyError"))
    if exp["ok"]:
        # a negative position denotes the same row as its non-negative equivalent
        got = attempt("indices", lambda: [int(x) % len(t) if len(t) and int(x) < 0 else int(x) for x in np.atleast_1d(tab.rows.indices[arg])])
        if got != list(want_rows):
            bad.append(("rows.indices[...]", repr(arg), got, list(want_rows)))
        got = attempt("mask", lambda: [bool(x) for x in tab.rows.mask[arg]])
        wm = [i in set(want_rows) for i in range(len(t))]
        if got != wm:
            bad.append(("rows.mask[...]", repr(arg), got, wm))
    return bad


def worker(job, shard, nshards):
    cases = job["cases"]
    fails, stats, samples = [], collections.Counter(), []
    seen_nontrivial = set()
    for ci in range(shard, len(cases), nshards):
        t, sels, exp = cases[ci]
        for variant in (0, 1, 2):
            stats["evaluations"] += 1
            bad = run_case(t, sels, exp, variant)
            if bad:
                stats["fail"] += 1
                if len(fails) < 150:
                    fails.append({"tags": ["C08"], "summary": f"table {t} selector {bad[0][1]}: {bad[0][0]} gave {bad[0][2]}, specification says {bad[0][3]}",
                                  "table": t, "selectors": sels, "expected": exp, "variant": variant, "detail": repr(bad)[:1200]})
        if exp["ok"] and 0 < len(exp["rows"]) < len(t):
            stats["nontrivial"] += 1
        if len(samples) < 2 and exp["ok"] and len(exp["rows"]) > 1 and len(sels) == len(cases[-1][1]):
            samples.append({"table": t, "selectors": sels, "expected_rows": exp["rows"]})
    return {"fails": fails, "stats": dict(stats), "samples": samples}
