---------------------------- MODULE ManagerTrace ----------------------------
(***************************************************************************)
(* Trace specification for xdeps.tasks.Manager (direction code -> spec):   *)
(* executions of the REAL manager, recorded call by call by harness-side   *)
(* wrappers while something the specification did not choose drives it     *)
(* (random histories over dozens of locations, chains of thousands of       *)
(* tasks, wide fans, the repository's own tests and examples), are checked *)
(* against the same notions Manager.tla is written with:                   *)
(*                                                                         *)
(*   Chain / Comparable   locations as paths (owner table from the trace)  *)
(*   deps, reads, target  per task, taken from the Register event          *)
(*   Start(l) = Chain(l); a task is TRIGGERED when its deps meet what has   *)
(*   been written so far (the assigned location's chain, then the target   *)
(*   chains of the tasks that ran): Manager.tla's Triggered, unrolled      *)
(*   Produces(u, t)       u's target comparable with something t reads     *)
(*                                                                         *)
(* Events (one per line of the recorded trace):                            *)
(*   Reg(t, deps, reads, target)   Manager.register                        *)
(*   Unreg(t)                      Manager.unregister                      *)
(*   Begin(l)                      top-level set_value entered, ref l      *)
(*   Run(t)                        Task.run of task t                      *)
(*   End(out, stale, unrun)        set_value returned / raised; stale =    *)
(*         expression tasks whose target differs from re-evaluating the    *)
(*         expression on the current contents (pull-model oracle, measured *)
(*         by the recorder); unrun = how many active tasks read a written  *)
(*         location but did not run (measured from deps, see Complete)     *)
(*   Idx(sup)                      supports of the four indices            *)
(*                                                                         *)
(* Every clause is named; a violated clause is recorded with the event     *)
(* number and the trace continues (total verdicts).                        *)
(***************************************************************************)
EXTENDS Integers, Sequences, FiniteSets, TLC, Json, IOUtils

Traces == JsonDeserialize(IOEnv.TRACE_FILE)

VARIABLES tid, l, act, upd, bad, excused
vars == <<tid, l, act, upd, bad, excused>>

SeqSet(s) == {s[i] : i \in 1..Len(s)}
T == Traces[tid]
NLoc == Len(T.par)                      \* locations are 1..NLoc; par[i] = owner location or 0
Par(i) == T.par[i]
RECURSIVE Chain(_)
Chain(i) == IF Par(i) = 0 THEN {i} ELSE {i} \cup Chain(Par(i))
ChainS(S) == UNION {Chain(i) : i \in S}

(* per-task data comes from the trace's task table (filled by the Reg events the recorder saw): tasks are 1..NTask *)
Deps(t)   == SeqSet(T.tasks[t].deps)
Reads(t)  == SeqSet(T.tasks[t].reads)
Tgts(t)   == SeqSet(T.tasks[t].targets)           \* declared targets (an expression task: its target and the enclosing containers)
Writes(t) == SeqSet(T.tasks[t].writes)            \* locations actually written
Produces(u, t) == \E w \in Writes(u) : \E p \in Reads(t) : w \in Chain(p) \/ p \in Chain(w)

NoUpd == [on |-> FALSE, origin |-> 0, start |-> 0, written |-> {}, ran |-> {}, readsUp |-> {}, readsDown |-> {}, order_bad |-> FALSE]

Init == /\ tid \in 1..Len(Traces)
        /\ l = 1
        /\ act = {}
        /\ upd = NoUpd
        /\ bad = {}
        /\ excused = {}          \* tasks left stale by a structural-cycle update (known finding): excused until they run or are redefined

Flag(S) == bad' = bad \cup {<<l, x>> : x \in S}
Ev == T.events[l]

(* the reported graph restricted to the tasks that ran has a cycle through two distinct tasks: the recorded known finding *)
Reported(u, t) == Tgts(u) \cap Deps(t) # {}
RECURSIVE Reach(_, _, _)
Reach(S, U, seen) == LET nxt == {t \in U \ seen : \E u \in S : u # t /\ Reported(u, t)} IN IF nxt = {} THEN seen ELSE Reach(nxt, U, seen \cup nxt)
StructCyclic(U) == \E u \in U : u \in Reach({u}, U, {})

Step ==
  LET e == Ev IN
  CASE e.ev = "Reg" ->
         /\ act' = act \cup {e.t}
         /\ Flag({})
         /\ excused' = excused \ {e.t}
         /\ UNCHANGED upd
    [] e.ev = "Unreg" ->
         /\ act' = act \ {e.t}
         /\ Flag(IF e.t \in act THEN {} ELSE {"C03.unregister-of-an-unknown-task"})
         /\ excused' = excused \ {e.t}
         /\ UNCHANGED upd
    [] e.ev = "Begin" ->
         /\ upd' = [NoUpd EXCEPT !.on = TRUE, !.origin = e.l, !.start = l, !.written = Chain(e.l)]
         /\ Flag({})
         /\ UNCHANGED <<act, excused>>
    [] e.ev = "Run" ->
         LET t == e.t
             ranset == upd.ran
             trig == Deps(t) \cap upd.written # {}
             (* t writes something an earlier-run task already read (same location, a container of it, or a member of it) *)
             late == \E w \in Writes(t) : w \in upd.readsUp \/ (Chain(w) \cap upd.readsDown # {})
         IN /\ upd' = IF ~upd.on THEN upd ELSE
                       [upd EXCEPT !.ran = @ \cup {t}, !.written = @ \cup ChainS(Tgts(t)),
                                  !.readsUp = @ \cup ChainS(Reads(t)), !.readsDown = @ \cup Reads(t),
                                  !.order_bad = @ \/ late]
            (* outside set_value (task.run() / run_tasks() called directly) no order or multiplicity is promised *)
            /\ Flag((IF upd.on /\ t \in ranset THEN {"C02.task-ran-twice-in-one-update"} ELSE {})
                    \cup (IF upd.on /\ ~trig THEN {"C02.task-outside-the-triggered-set-ran"} ELSE {})
                    \cup (IF t \notin act THEN {"C03.a-removed-task-ran"} ELSE {})
                    \cup (IF upd.on /\ late /\ t \notin ranset THEN {"C02.producer-ran-after-its-consumer"} ELSE {}))
            /\ excused' = excused \ {t}
            /\ UNCHANGED act
    [] e.ev = "End" ->
         LET ranset == upd.ran
             missing == {t \in act \ ranset : Deps(t) \cap upd.written # {}}
             cyc == upd.order_bad /\ StructCyclic(ranset)
             stale == SeqSet(e.stale) \ excused
             v == (IF e.out = "ok" /\ missing # {} THEN {"C02.triggered-task-did-not-run"} ELSE {})
                  \cup (IF e.out = "ok" /\ stale # {} THEN {"C01.expression-defined-location-is-stale"} ELSE {})
                  \cup (IF e.out = "RecursionError" THEN {"C01.update-fails-on-a-long-chain-of-dependants"} ELSE {})
                  \cup (IF e.out \notin {"ok", "Fault", "ValueError", "RecursionError"} THEN {"C03.assignment-failed-on-manager-state"} ELSE {})
         IN /\ upd' = NoUpd
            /\ bad' = (IF cyc
                       THEN {b \in bad : ~(b[1] > upd.start /\ b[2] = "C02.producer-ran-after-its-consumer")}
                            \cup {<<l, "KNOWN.struct-cycle-order">>}
                            \cup {<<l, x>> : x \in v \ {"C01.expression-defined-location-is-stale"}}
                       ELSE bad \cup {<<l, x>> : x \in v})
            /\ excused' = (IF cyc THEN excused \cup SeqSet(e.stale) ELSE excused)
            /\ UNCHANGED act
    [] e.ev = "Idx" ->
         LET want_dt == UNION {{<<x, t>> : x \in Deps(t)} : t \in act}
             want_tt == UNION {{<<x, t>> : x \in Tgts(t)} : t \in act}
             want_rt == {<<u, t>> \in act \X act : Reported(u, t)}
             want_rd == UNION {{<<x, y>> : x \in Deps(t), y \in Tgts(t)} : t \in act}
             got(f) == {<<f[i][1], f[i][2]>> : i \in 1..Len(f)}
         IN /\ Flag((IF got(e.deptasks) # want_dt THEN {"C03.deptasks-support-differs-from-derived"} ELSE {})
                    \cup (IF got(e.tartasks) # want_tt THEN {"C03.tartasks-support-differs-from-derived"} ELSE {})
                    \cup (IF got(e.rtasks) # want_rt THEN {"C03.rtasks-support-differs-from-derived"} ELSE {})
                    \cup (IF got(e.rdeps) # want_rd THEN {"C03.rdeps-support-differs-from-derived"} ELSE {})
                    \cup (IF ~e.verify_ok THEN {"C03.verify-failed"} ELSE {}))
            /\ UNCHANGED <<act, upd, excused>>

Next == /\ l <= Len(T.events)
        /\ Step
        /\ l' = l + 1
        /\ UNCHANGED tid
        /\ (l' > Len(T.events) => PrintT(<<"VERDICT", tid, Len(T.events), bad'>>))

Spec == Init /\ [][Next]_vars
Consumed == TRUE
=============================================================================
