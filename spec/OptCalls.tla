------------------------------ MODULE OptCalls ------------------------------
(***************************************************************************)
(* The call sequences the optimizer is driven with: every word over the    *)
(* public-call menu that respects the obvious enabling conditions (reload  *)
(* of a tag only after that tag was set, enable only after something was   *)
(* disabled ...).  TLC enumerates them; the driver executes each on real    *)
(* Optimize objects and Optimizer.tla decides the recorded calls.          *)
(***************************************************************************)
EXTENDS Integers, Sequences, FiniteSets, TLC, Json

CONSTANTS MaxLen, Menu

VARIABLES calls, tagged, voff, toff
vars == <<calls, tagged, voff, toff>>

Call(c) == /\ Len(calls) < MaxLen
           /\ c \in Menu
           /\ (c.ev = "Reload" /\ c.how = "tag" => tagged)
           /\ (c.ev = "Enable" => (voff \/ toff))
           /\ calls' = Append(calls, c)
           /\ tagged' = ((tagged \/ c.ev = "Tag") /\ c.ev # "ClearLog")
           /\ voff' = IF c.ev = "Disable" /\ c.what \in {"v", "vname"} THEN TRUE ELSE IF c.ev = "Enable" /\ c.what \in {"v", "all"} THEN FALSE ELSE voff
           /\ toff' = IF c.ev = "Disable" /\ c.what = "t" THEN TRUE ELSE IF c.ev = "Enable" /\ c.what \in {"t", "all"} THEN FALSE ELSE toff

Init == calls = <<>> /\ tagged = FALSE /\ voff = FALSE /\ toff = FALSE
Next == \E c \in Menu : Call(c)
Spec == Init /\ [][Next]_vars

S(n, tb, dis, br) == [ev |-> "Step", n |-> n, take_best |-> tb, dis |-> dis, broyden |-> br]
FullMenu ==
  {S(1, TRUE, "none", FALSE), S(3, TRUE, "none", FALSE), S(2, FALSE, "none", FALSE), S(2, TRUE, "none", TRUE),
   S(2, TRUE, "vary", FALSE), S(2, TRUE, "vary_name", FALSE), S(2, TRUE, "target", FALSE), S(1, TRUE, "en_vary", FALSE)}
  \cup {[ev |-> "Solve", broyden |-> FALSE], [ev |-> "Solve", broyden |-> TRUE]}
  \cup {[ev |-> "Reload", how |-> "first"], [ev |-> "Reload", how |-> "last"], [ev |-> "Reload", how |-> "mid"], [ev |-> "Reload", how |-> "tag"]}
  \cup {[ev |-> "Tag"], [ev |-> "ClearLog"], [ev |-> "Retarget", j |-> 0, delta |-> 1]}
  \cup {[ev |-> "Disable", what |-> "v"], [ev |-> "Disable", what |-> "t"], [ev |-> "Enable", what |-> "v"], [ev |-> "Enable", what |-> "all"]}

(* Long histories (simulation): steps that pass TWO one-call flag arguments at once belong to this menu only, so that the       *)
(* exhaustive enumerations of length <= 4 keep their size.  Behaviours of MaxLen calls are drawn by `tlc -simulate`; only the   *)
(* complete ones are emitted.  A history-dependent defect of the optimizer (solver memory re-seeded at the wrong moment, a      *)
(* memo keyed by too little) needs six or seven particular calls in a row: the per-call clauses of Optimizer.tla and the        *)
(* protocol search of OptProtoTrace.tla see it only when such a history is actually driven.                                     *)
LongMenu == FullMenu
  \cup {S(2, TRUE, "vary+target", FALSE), S(1, TRUE, "en_vary+target", FALSE), S(2, FALSE, "en_vary+vary_name", FALSE), S(1, FALSE, "en_vary", FALSE),
        S(1, TRUE, "en_target", FALSE), S(2, TRUE, "en_target+vary", FALSE)}
  \cup {[ev |-> "Disable", what |-> "vname"], [ev |-> "Enable", what |-> "t"]}

Emit == Len(calls) = 0 \/ PrintT(ToJson(<<"SEQ", calls>>))
EmitFull == Len(calls) < MaxLen \/ PrintT(ToJson(<<"SEQ", calls>>))
=============================================================================
