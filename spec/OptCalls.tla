------------------------------ MODULE OptCalls ------------------------------
(***************************************************************************)
(* The call sequences the optimizer is driven with: every word over the    *)
(* public-call menu that respects the obvious enabling conditions (reload  *)
(* of a tag only after that tag was set, enable only after something was   *)
(* disabled ...).  TLC enumerates them; the driver executes each on real    *)
(* Optimize objects and Optimizer.tla decides the recorded calls.          *)
(***************************************************************************)
EXTENDS Integers, Sequences, FiniteSets, TLC, Json

CONSTANTS MaxLen, Menu

VARIABLES calls, tagged, voff, toff
vars == <<calls, tagged, voff, toff>>

Call(c) == /\ Len(calls) < MaxLen
           /\ c \in Menu
           /\ (c.ev = "Reload" /\ c.how = "tag" => tagged)
           /\ (c.ev = "Enable" => (voff \/ toff))
           /\ calls' = Append(calls, c)
           /\ tagged' = ((tagged \/ c.ev = "Tag") /\ c.ev # "ClearLog")
           /\ voff' = IF c.ev = "Disable" /\ c.what = "v" THEN TRUE ELSE IF c.ev = "Enable" /\ c.what \in {"v", "all"} THEN FALSE ELSE voff
           /\ toff' = IF c.ev = "Disable" /\ c.what = "t" THEN TRUE ELSE IF c.ev = "Enable" /\ c.what \in {"t", "all"} THEN FALSE ELSE toff

Init == calls = <<>> /\ tagged = FALSE /\ voff = FALSE /\ toff = FALSE
Next == \E c \in Menu : Call(c)
Spec == Init /\ [][Next]_vars

S(n, tb, dis, br) == [ev |-> "Step", n |-> n, take_best |-> tb, dis |-> dis, broyden |-> br]
FullMenu ==
  {S(1, TRUE, "none", FALSE), S(3, TRUE, "none", FALSE), S(2, FALSE, "none", FALSE), S(2, TRUE, "none", TRUE),
   S(2, TRUE, "vary", FALSE), S(2, TRUE, "vary_name", FALSE), S(2, TRUE, "target", FALSE), S(1, TRUE, "en_vary", FALSE)}
  \cup {[ev |-> "Solve", broyden |-> FALSE], [ev |-> "Solve", broyden |-> TRUE]}
  \cup {[ev |-> "Reload", how |-> "first"], [ev |-> "Reload", how |-> "last"], [ev |-> "Reload", how |-> "mid"], [ev |-> "Reload", how |-> "tag"]}
  \cup {[ev |-> "Tag"], [ev |-> "ClearLog"], [ev |-> "Retarget", j |-> 0, delta |-> 1]}
  \cup {[ev |-> "Disable", what |-> "v"], [ev |-> "Disable", what |-> "t"], [ev |-> "Enable", what |-> "v"], [ev |-> "Enable", what |-> "all"]}

Emit == Len(calls) = 0 \/ PrintT(ToJson(<<"SEQ", calls>>))
=============================================================================
