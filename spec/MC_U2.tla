------------------------------- MODULE MC_U2 -------------------------------
(* Universe U2: a, index i, attribute container e{p,q}, list l[0..1]; computed key l[i].                  *)
(* Bound by harness/mgrlib.py: "e.p" -> s['e'].p, "l.0" -> s['l'][0], Dyn("l", Ref("i")) -> s['l'][s['i']] *)
EXTENDS Integers, Sequences, FiniteSets, TLC, Json
CONSTANTS Faults, Extras, Transfers, MaxDepth, EmitIdx, Episodes
VARIABLES mem, defs, reg, kprev, frozen, ghost, last, depth

cLeaf == {"a", "i", "e.p", "e.q", "l.0", "l.1"}
cLoc  == cLeaf \cup {"e", "l", "f:total"}
cPar  == [x \in cLoc |-> CASE x \in {"e.p", "e.q"} -> "e" [] x \in {"l.0", "l.1"} -> "l" [] OTHER -> "/"]
cValsOf == [x \in cLeaf |-> IF x = "i" THEN {0, 1} ELSE {7, -1}]
cInitMem == [x \in cLeaf |-> CASE x = "a" -> 1 [] x = "i" -> 0 [] x = "e.p" -> 3 [] x = "e.q" -> 4 [] x = "l.0" -> 5 [] x = "l.1" -> 6]

R(x) == [k |-> "ref", l |-> x]
L(v) == [k |-> "lit", v |-> v]
B(o, a, b) == [k |-> "bin", op |-> o, a |-> a, b |-> b]
DynLI == [k |-> "dyn", o |-> "l", key |-> R("i")]
DynLX == [k |-> "dyn", o |-> "l", key |-> B("-", L(1), R("i"))]          \* s['l'][1 - s['i']] : the key is itself an expression

cMenu == {R("a"), R("e.p"), R("l.1")}
   \cup {B("+", R("e.p"), R("e.q")), B("+", R("a"), R("l.0")), B("*", R("e.q"), L(2)), B("-", L(10), R("a"))}
   \cup {DynLI, B("+", DynLI, R("a")), B("*", DynLI, L(3)), DynLX, B("+", DynLX, R("e.p"))}
   \cup {[k |-> "tot", c |-> "l"], [k |-> "tot", c |-> "e"]}
   \cup {[k |-> "neg", a |-> R("e.p")], [k |-> "rnd", a |-> R("l.0"), p |-> R("a")]}

cTaskSpec == [t \in {"F1", "K1"} |->
   IF t = "F1" THEN [kind |-> "fn", deps |-> {"e.p", "l.0"}, targets |-> {"a"}, out |-> "a", ins |-> <<"e.p", "l.0">>]
   ELSE [kind |-> "knob", src |-> "a", deps |-> {"a"}, targets |-> {"e.q", "l.1"}, tl |-> <<"e.q", "l.1">>, w |-> <<2, 3>>]]

INSTANCE Manager WITH KeepLoc <- "e.q", KeepExpr <- B("+", R("a"), L(1)), Loc <- cLoc, Leaf <- cLeaf, Par <- cPar, ValsOf <- cValsOf, InitMem <- cInitMem,
   Menu <- cMenu, ExprTargets <- cLeaf \ {"i"}, TaskSpec <- cTaskSpec, IpOps <- {"+", "-"}, IpArgs <- {3}

ASSUME PrintT(ToJson(<<"INIT", <<cInitMem, [x \in cLeaf |-> NoDef], {}, [t \in DOMAIN cTaskSpec |-> 0], FALSE, {}>>>>))
ASSUME PrintT(ToJson(<<"META", cTaskSpec>>))
=============================================================================
