---------------------------- MODULE MC_OptProto ----------------------------
(* Design exploration of OptProto: four 2-knob / 2-target environments on the 2 x 2 grid of knob values. *)
EXTENDS Integers, Sequences, FiniteSets, TLC
CONSTANTS MaxCalls, MaxFaults
VARIABLES sc, ep, cur, vact, tact, log, pc, ctx, faults, calls, ret

\* points 1..4 = (0,0) (1,0) (0,1) (1,1)
CoordOf == <<<<0, 0>>, <<1, 0>>, <<0, 1>>, <<1, 1>>>>
TPen1(s, p, t) ==
  LET c == CoordOf[p] IN
  CASE s = "converges"     -> IF p = 4 THEN 0 ELSE IF c[t] = 1 THEN 1 ELSE 2
    [] s = "inconsistent"  -> IF t = 1 THEN (IF c[1] = 1 THEN 0 ELSE 2) ELSE (IF c[1] = 0 THEN 0 ELSE 1)   \* the two targets want opposite things
    [] s = "limited"       -> IF p = 4 THEN 0 ELSE IF c[t] = 1 THEN 1 ELSE 2                                 \* like converges, but knob 2 = 1 is outside its limits
    [] s = "matched-start" -> IF p = 1 THEN 0 ELSE 1
    [] s = "nonmonotone"   -> IF p = 1 THEN 1 ELSE IF p = 4 THEN 0 ELSE 2                                    \* every first move makes things worse
    [] s = "norestore"     -> IF t = 1 THEN (IF c[1] = 1 THEN 0 ELSE 2) ELSE (IF c[1] = 0 THEN 0 ELSE 1)
\* epoch 2 (after the user changed the targets): the two knobs swap roles
TPen(s, e, p, t) == IF e = 1 THEN TPen1(s, p, t) ELSE TPen1(s, CHOOSE q \in 1..4 : CoordOf[q] = <<CoordOf[p][2], 1 - CoordOf[p][1]>>, t)
MkEnv(s) == [nk |-> 2, nt |-> 2, npts |-> 4, nep |-> IF s \in {"converges", "nonmonotone"} THEN 2 ELSE 1, start |-> 1, nmax |-> 2, restore |-> s # "norestore",
             coord  |-> CoordOf,
             inlimk |-> [p \in 1..4 |-> IF s = "limited" /\ CoordOf[p][2] = 1 THEN {1} ELSE {1, 2}],
             tolt   |-> [e \in 1..2 |-> [p \in 1..4 |-> {t \in 1..2 : TPen(s, e, p, t) = 0}]],
             pen    |-> [e \in 1..2 |-> [p \in 1..4 |-> [m \in 1..4 |-> (IF (m - 1) % 2 = 1 THEN TPen(s, e, p, 1) ELSE 0) + (IF (m - 1) \div 2 = 1 THEN TPen(s, e, p, 2) ELSE 0)]]]]
ScenarioNames == {"converges", "inconsistent", "limited", "matched-start", "nonmonotone", "norestore"}
DesignEnv == [s \in ScenarioNames |-> MkEnv(s)]
DesignSolverExc == {"AssertionError"}

INSTANCE OptProto WITH Env <- DesignEnv, SolverExc <- DesignSolverExc

(* Reachability probes (vacuity): each of these "invariants" must be VIOLATED, i.e. the situation it denies is reached. *)
Probe_reload_moves      == ~(Done("reload") /\ ret.out = "ok" /\ cur # ret.pre.cur)
Probe_reload_flags      == ~(Done("reload") /\ ret.out = "ok" /\ vact # ret.pre.vact)
Probe_take_best_reload  == ~(pc = "best_eval")
Probe_solve_ok          == ~(IsSolve /\ ret.out = "ok" /\ cur # ret.pre.cur)
Probe_solve_restored    == ~(IsSolve /\ ret.out = "RuntimeError" /\ Len(log) > ret.first + 1)
Probe_solve_fault_restored == ~(IsSolve /\ ret.out = "InjectedFault" /\ ret.call = "solve-failed" /\ Len(log) > ret.pre.loglen /\ Last(log).pt = log[1].pt)
Probe_restore_fails     == ~(IsSolve /\ ret.call = "solve-failed" /\ ret.exc = "RuntimeError" /\ ret.out = "InjectedFault")
Probe_norestore         == ~(IsSolve /\ ret.out # "ok" /\ ~E.restore /\ Len(log) >= 1 /\ cur # log[1].pt)
Probe_stay              == ~(Done("step") /\ ret.out = "ok" /\ Len(log) = ret.first + 1 /\ ret.n = 2 /\ log[ret.first + 1].kind = "solver" /\ log[ret.first + 1].pt = log[ret.first].pt)
Probe_limit_refusal     == ~(Idle /\ ret.out = "ValueError")
Probe_probe_left_outside == ~(Idle /\ ~AllIn(cur))
Probe_clear_fault       == ~(Idle /\ Len(log) = 0)
Probe_solver_gives_up   == ~(Idle /\ ret.out = "AssertionError")
Probe_temp_flags        == ~(Done("step") /\ ret.out = "ok" /\ ret.dv # {} /\ ret.dt # {} /\ Len(log) > ret.first + 1)
Probe_temp_flags_left   == ~(Done("step") /\ ret.out = "InjectedFault" /\ ret.dv # {} /\ ret.dv \cap vact = {} /\ ret.dv \subseteq ret.pre.vact)
Probe_retarget_solve    == ~(IsSolve /\ ret.out = "ok" /\ ep = 2 /\ cur # ret.pre.cur)
=============================================================================
