------------------------------ MODULE TableHeap ------------------------------
(***************************************************************************)
(* xdeps.Table: every table the API produces is rectangular and leaves its *)
(* source untouched (C14).                                                 *)
(*                                                                         *)
(* The state is a HEAP of live tables.  A table is                         *)
(*   [names  : the index column "name" (sequence of names),                *)
(*    cols   : data column name -> sequence of cells (same length),        *)
(*    order  : the column list, index included,                            *)
(*    sc     : scalar (non-column) entries: "z" a number; "q", "r", "u"      *)
(*             VECTORS of length 2, 1, 3 (the binding gives their values):  *)
(*             some derived table has exactly that many rows, and the entry *)
(*             must still be carried over whole,                            *)
(*    aid    : data column name -> identity of the array holding it,       *)
(*    kind   : "plain" | "transposed" | "concat" (column order unspecified)]*)
(* The specification has VALUE semantics: a derivation appends a new table *)
(* and changes nothing else (frame condition).  The implementation shares  *)
(* numpy arrays between a table and tables derived from it; comparing ALL  *)
(* live tables after every step is what detects a derivation that damages  *)
(* its source.  One deliberate concession, because the property only       *)
(* speaks about DERIVING: a later in-place assignment of a whole column    *)
(* (t['a'] = v writes into the existing array) may legitimately show       *)
(* through in tables sharing that array, so the cells of every column      *)
(* that may alias it (same aid) become Unknown; lengths, column lists and  *)
(* every other cell are still demanded.                                    *)
(***************************************************************************)
EXTENDS Integers, Sequences, FiniteSets, TLC, Json, TLCExt

CONSTANTS MaxTables, MaxDepth, MaxRows, Roots

VARIABLES heap, naid, last, depth
vars == <<heap, naid, last, depth>>
View == <<heap, depth>>
Id == <<TLCFP(heap), TLCFP(<<"salt", heap>>), TLCFP(<<heap, 7>>), Len(heap)>>

Unknown == 0 - 999
DataCols == {"a", "b", "s"}

Mk(names, cols, order, sc, aid, kind) == [names |-> names, cols |-> cols, order |-> order, sc |-> sc, aid |-> aid, kind |-> kind]
NRows(t) == Len(t.names)
Rect(t) == /\ \A c \in DOMAIN t.cols : Len(t.cols[c]) = NRows(t)
           /\ {t.order[i] : i \in 1..Len(t.order)} = DOMAIN t.cols \cup {"name"}
           /\ \A i, j \in 1..Len(t.order) : i # j => t.order[i] # t.order[j]

Sub(s, pos) == [k \in 1..Len(pos) |-> s[pos[k] + 1]]       \* pos: 0-based positions
SelRows(t, pos) == Mk(Sub(t.names, pos), [c \in DOMAIN t.cols |-> Sub(t.cols[c], pos)], t.order, t.sc, t.aid, t.kind)

Root(n) ==
  CASE n = "T3" -> Mk(<<"a", "b", "a">>, [c \in DataCols |-> CASE c = "a" -> <<1, 2, 3>> [] c = "b" -> <<4, 5, 6>> [] c = "s" -> <<7, 8, 9>>],
                      <<"name", "a", "b", "s">>, {"q", "r", "u"}, [c \in DataCols |-> CASE c = "a" -> 1 [] c = "b" -> 2 [] c = "s" -> 3], "plain")
    [] n = "T0" -> Mk(<<>>, [c \in {"a", "b"} |-> <<>>], <<"a", "name", "b">>, {}, [c \in {"a", "b"} |-> IF c = "a" THEN 4 ELSE 5], "plain")
    [] n = "T1" -> Mk(<<"c">>, [c \in {"a", "b"} |-> IF c = "a" THEN <<10>> ELSE <<20>>], <<"name", "b", "a">>, {"q", "r"},
                      [c \in {"a", "b"} |-> IF c = "a" THEN 6 ELSE 7], "plain")
    [] n = "T2" -> Mk(<<"b", "c">>, [c \in DataCols |-> CASE c = "a" -> <<0, 0 - 1>> [] c = "b" -> <<2, 2>> [] c = "s" -> <<1, 1>>],
                      <<"name", "a", "b", "s">>, {"q"}, [c \in DataCols |-> CASE c = "a" -> 8 [] c = "b" -> 9 [] c = "s" -> 10], "plain")

Init == /\ \E r \in Roots : heap = [i \in 1..Len(r) |-> Root(r[i])]
        /\ naid = 20
        /\ last = [a |-> "Init"]
        /\ depth = 0
        /\ PrintT(ToJson(<<"ROOT", Id>>))

Room == Len(heap) < MaxTables
Plain(i) == heap[i].kind = "plain"
Push(t, a) == /\ Room /\ heap' = Append(heap, t) /\ last' = a

Bump == naid' = naid + 4

(* ---- row selections: t.rows[sel] -------------------------------------------------------------------------- *)
RowSels(t) == LET n == NRows(t) IN
     {[k |-> "slice", lo |-> 0, hi |-> n, pos |-> [j \in 1..n |-> j - 1]]}
  \cup (IF n >= 2 THEN {[k |-> "slice", lo |-> 1, hi |-> n, pos |-> [j \in 1..(n - 1) |-> j]],
                        [k |-> "list", pos |-> <<n - 1, 0>>],
                        [k |-> "mask", pos |-> <<0>>]} ELSE {})
  \cup {[k |-> "list", pos |-> <<>>]}
  \cup {[k |-> "name", name |-> nm, pos |-> SelectSeq([j \in 1..n |-> j - 1], LAMBDA p : t.names[p + 1] = nm)] : nm \in {"a", "zz"}}
  \cup (IF n >= 1 THEN {[k |-> "reverse", pos |-> [j \in 1..n |-> n - j]]} ELSE {})

Rows(i, sel) == /\ Plain(i) /\ UNCHANGED naid
                /\ Push(SelRows(heap[i], sel.pos), [a |-> "Rows", i |-> i, sel |-> sel])

(* ---- column selections: t.cols[...] ----------------------------------------------------------------------- *)
ColLists(t) == LET D == DOMAIN t.cols IN
     {<<c>> : c \in D} \cup {<<"name">>} \cup (IF {"a", "b"} \subseteq D THEN {<<"b", "a">>, <<"a", "name", "b">>} ELSE {})
ColsOf(t, cs) == LET withidx == IF \E k \in 1..Len(cs) : cs[k] = "name" THEN cs ELSE <<"name">> \o cs
                     keep == {cs[k] : k \in 1..Len(cs)} \ {"name"}
                 IN Mk(t.names, [c \in keep |-> t.cols[c]], withidx, t.sc, [c \in keep |-> t.aid[c]], "plain")
Cols(i, cs, form) == /\ Plain(i) /\ UNCHANGED naid
                     /\ Push(ColsOf(heap[i], cs), [a |-> "Cols", i |-> i, cs |-> cs, form |-> form])
ColsAll(i) == /\ Plain(i) /\ UNCHANGED naid
              /\ Push([heap[i] EXCEPT !.kind = "plain"], [a |-> "ColsAll", i |-> i])

(* ---- column expressions: evaluated element-wise on the columns ----------------------------------------------- *)
Exprs == {"a+2*b", "a*b", "a-b"}
EvalExpr(t, e) == [k \in 1..NRows(t) |->
                     LET x == t.cols["a"][k]  y == t.cols["b"][k] IN
                     IF x = Unknown \/ y = Unknown THEN Unknown
                     ELSE CASE e = "a+2*b" -> x + 2 * y [] e = "a*b" -> x * y [] e = "a-b" -> x - y]
(* t['a+2*b'] : a query, nothing changes *)
Query(i, e) == /\ Plain(i) /\ {"a", "b"} \subseteq DOMAIN heap[i].cols
               /\ UNCHANGED <<heap, naid>>
               /\ last' = [a |-> "Query", i |-> i, e |-> e, r |-> EvalExpr(heap[i], e)]
(* t.cols['a+2*b'] : a table with the index and the computed column *)
ColExpr(i, e) == /\ Plain(i) /\ {"a", "b"} \subseteq DOMAIN heap[i].cols /\ Bump
                 /\ Push(Mk(heap[i].names, [c \in {e} |-> EvalExpr(heap[i], e)], <<"name", e>>, heap[i].sc, [c \in {e} |-> naid + 1], "plain"),
                         [a |-> "ColExpr", i |-> i, e |-> e])

(* ---- concatenation, repetition, copy, transposition ---------------------------------------------------------- *)
NewAids(t, base) == [c \in DOMAIN t.cols |-> base + (CASE c = "a" -> 1 [] c = "b" -> 2 [] c = "s" -> 3 [] OTHER -> 4)]
Cat(t, u, kind, sc) == Mk(t.names \o u.names, [c \in DOMAIN t.cols |-> t.cols[c] \o u.cols[c]], t.order, sc, NewAids(t, naid), kind)

Add(i, j) == /\ Plain(i) /\ Plain(j) /\ DOMAIN heap[i].cols = DOMAIN heap[j].cols /\ Bump
             /\ NRows(heap[i]) + NRows(heap[j]) <= MaxRows
             /\ Push(Cat(heap[i], heap[j], "plain", heap[i].sc), [a |-> "Add", i |-> i, j |-> j])

RECURSIVE Rep(_, _)
Rep(s, k) == IF k = 0 THEN <<>> ELSE s \o Rep(s, k - 1)
Mul(i, k) == /\ Plain(i) /\ k * NRows(heap[i]) <= MaxRows
             /\ IF k = 0 THEN /\ UNCHANGED <<heap, naid>>                              \* numpy cannot concatenate nothing: named refusal
                              /\ last' = [a |-> "Mul", i |-> i, k |-> k, exc |-> "ValueError"]
                ELSE /\ Bump
                     /\ Push(Mk(Rep(heap[i].names, k), [c \in DOMAIN heap[i].cols |-> Rep(heap[i].cols[c], k)], heap[i].order, heap[i].sc,
                                NewAids(heap[i], naid), "plain"), [a |-> "Mul", i |-> i, k |-> k, exc |-> "none"])

(* Table.concatenate([ti, tj]): common columns, rebuilt with the default index; column order is not specified *)
Concat(i, j) == /\ Plain(i) /\ Plain(j) /\ Bump
                /\ NRows(heap[i]) + NRows(heap[j]) <= MaxRows
                /\ LET common == DOMAIN heap[i].cols \cap DOMAIN heap[j].cols
                       ti == [heap[i] EXCEPT !.cols = [c \in common |-> heap[i].cols[c]]]
                       tj == [heap[j] EXCEPT !.cols = [c \in common |-> heap[j].cols[c]]]
                       ord == SelectSeq(heap[i].order, LAMBDA c : c = "name" \/ c \in common)
                   IN Push(Cat([ti EXCEPT !.order = ord], tj, "concat", {}), [a |-> "Concat", i |-> i, j |-> j])

Copy(i) == /\ Plain(i) /\ UNCHANGED naid /\ Push(heap[i], [a |-> "Copy", i |-> i])

(* t._t : one row per column of t, one column per row of t; cell (c, k) is the text of t's cell; a leaf here *)
Transpose(i) == /\ Plain(i) /\ UNCHANGED naid
                /\ Push(Mk(heap[i].order, [c \in {} |-> <<>>], <<"name">>, {}, [c \in {} |-> 0], "transposed") @@ [src |-> heap[i]],
                        [a |-> "Transpose", i |-> i])

(* ---- assignments ------------------------------------------------------------------------------------------------ *)
(* t['w'] = array : a new column *)
NewCol(i) == /\ Plain(i) /\ "w" \notin DOMAIN heap[i].cols /\ NRows(heap[i]) > 0 /\ Bump
             /\ LET t == heap[i]
                    t2 == Mk(t.names, [c \in DOMAIN t.cols \cup {"w"} |-> IF c = "w" THEN [k \in 1..NRows(t) |-> 40 + k] ELSE t.cols[c]],
                             Append(t.order, "w"), t.sc, [c \in DOMAIN t.cols \cup {"w"} |-> IF c = "w" THEN naid + 4 ELSE t.aid[c]], "plain")
                IN /\ heap' = [heap EXCEPT ![i] = t2] /\ last' = [a |-> "NewCol", i |-> i]
(* t['a'] = 7 : written into the existing array; every column that may share it becomes Unknown *)
SetCol(i, c) == /\ Plain(i) /\ c \in DOMAIN heap[i].cols /\ NRows(heap[i]) > 0 /\ UNCHANGED naid
                /\ LET id == heap[i].aid[c] IN
                   heap' = [j \in 1..Len(heap) |->
                              IF j = i THEN [heap[j] EXCEPT !.cols[c] = [k \in 1..NRows(heap[j]) |-> 7]]
                              ELSE IF heap[j].kind = "transposed" THEN heap[j]
                              ELSE [heap[j] EXCEPT !.cols = [x \in DOMAIN heap[j].cols |->
                                                     IF heap[j].aid[x] = id THEN [k \in 1..NRows(heap[j]) |-> Unknown] ELSE heap[j].cols[x]]]]
                /\ last' = [a |-> "SetCol", i |-> i, c |-> c]
(* t['a'] = <full-length array of another dtype kind> : the cells become 8 (whether the implementation writes in place or replaces   *)
(* the array is its business: every column that may share the old array becomes Unknown and MAY still share it with the assigned one) *)
SetColArr(i, c) == /\ Plain(i) /\ c \in DOMAIN heap[i].cols /\ NRows(heap[i]) > 0 /\ UNCHANGED naid
                   /\ LET id == heap[i].aid[c] IN
                      heap' = [j \in 1..Len(heap) |->
                                 IF j = i THEN [heap[j] EXCEPT !.cols[c] = [k \in 1..NRows(heap[j]) |-> 8]]
                                 ELSE IF heap[j].kind = "transposed" THEN heap[j]
                                 ELSE [heap[j] EXCEPT !.cols = [x \in DOMAIN heap[j].cols |->
                                                        IF heap[j].aid[x] = id THEN [k \in 1..NRows(heap[j]) |-> Unknown] ELSE heap[j].cols[x]]]]
                   /\ last' = [a |-> "SetColArr", i |-> i, c |-> c]
(* t['z'] = 5 : a scalar entry *)
SetScalar(i) == /\ Plain(i) /\ "z" \notin heap[i].sc /\ UNCHANGED naid
                /\ heap' = [heap EXCEPT ![i].sc = @ \cup {"z"}] /\ last' = [a |-> "SetScalar", i |-> i]

Next == /\ depth < MaxDepth
        /\ depth' = depth + 1
        /\ \E i \in 1..Len(heap) :
             \/ \E sel \in RowSels(heap[i]) : Rows(i, sel)
             \/ \E cs \in ColLists(heap[i]) : \E f \in {"list", "str"} : Cols(i, cs, f)
             \/ ColsAll(i)
             \/ \E e \in Exprs : Query(i, e) \/ ColExpr(i, e)
             \/ \E j \in 1..Len(heap) : Add(i, j) \/ Concat(i, j)
             \/ \E k \in {0, 1, 2} : Mul(i, k)
             \/ Copy(i) \/ Transpose(i)
             \/ NewCol(i) \/ SetScalar(i)
             \/ \E c \in {"a", "b"} : SetCol(i, c)
             \/ SetColArr(i, "b")

Spec == Init /\ [][Next]_vars

(* C14 at design level *)
AllRect == \A i \in 1..Len(heap) : heap[i].kind = "transposed" \/ Rect(heap[i])
(* frame condition: a derivation (anything that appends) leaves every existing table as it was *)
Frame == [][Len(heap') > Len(heap) => \A i \in 1..Len(heap) : heap'[i] = heap[i]]_vars

RootsOne == {<<"T3">>}
RootsTwo == {<<"T3">>, <<"T1", "T2">>, <<"T0", "T3">>}
RootsAll == {<<"T3">>, <<"T0">>, <<"T1", "T2">>, <<"T0", "T3">>, <<"T2", "T3">>}

Emit   == PrintT(ToJson(<<"TR", Id, last', Id'>>))
EmitSt == PrintT(ToJson(<<"ST", Id, heap>>))
=============================================================================
