-------------------------------- MODULE Paths --------------------------------
(***************************************************************************)
(* xdeps references as access paths (C06).                                 *)
(*                                                                         *)
(* A reference denotes a path: a container label followed by a sequence of *)
(* steps <<kind, key>>, kind in {"item", "attr"}.  Two references are THE  *)
(* SAME iff their paths are equal as sequences; nothing else about them    *)
(* (how they were built, by which manager, what they print as) matters.    *)
(*                                                                         *)
(* The state is a dictionary keyed by paths (this is what every index of   *)
(* the manager is: tasks, rdeps, rtasks, deptasks, tartasks are dicts      *)
(* keyed by refs).  Actions:                                               *)
(*   Eq(p, q)   compare two independently built references                 *)
(*   Put(p, v)  d[ref(p)] = v          Get(q)  d.get(ref(q))               *)
(*   Del(q)     del d[ref(q)]                                              *)
(* every reference is built afresh from its path at each use.              *)
(***************************************************************************)
EXTENDS Integers, Sequences, FiniteSets, TLC, Json

CONSTANTS Labels,     \* container labels
          ItemKeys,   \* abstract item keys (the binding table turns them into strings with quotes / brackets / dots / unicode /
                      \* text that looks like another path, ints, negative ints, non-integral floats, tuples)
          AttrKeys,   \* abstract attribute names
          MaxLen,     \* steps per path
          MaxDepth,   \* dictionary operations per behaviour
          DictPaths   \* "all" | "few": which paths the dictionary operations range over

VARIABLES d, last, depth
vars == <<d, last, depth>>

Steps == ({"item"} \X ItemKeys) \cup ({"attr"} \X AttrKeys)
RECURSIVE SeqsUpTo(_)
SeqsUpTo(n) == IF n = 0 THEN {<<>>} ELSE LET S == SeqsUpTo(n - 1) IN S \cup {Append(s, x) : s \in {t \in S : Len(t) = n - 1}, x \in Steps}
Path == {[label |-> l, steps |-> s] : l \in Labels, s \in SeqsUpTo(MaxLen) \ {<<>>}}

Same(p, q) == p = q          \* the whole specification of reference identity

Missing == "missing"
Few == {p \in Path : Len(p.steps) <= 2 /\ \A i \in 1..Len(p.steps) : p.steps[i][2] \in {CHOOSE k \in ItemKeys : TRUE, CHOOSE a \in AttrKeys : TRUE,
                                                                                     CHOOSE k \in ItemKeys : k # (CHOOSE k2 \in ItemKeys : TRUE)}}
DP == IF DictPaths = "all" THEN Path ELSE Few

Init == d = [p \in {} |-> 0] /\ last = [a |-> "Init"] /\ depth = 0 /\ PrintT(ToJson(<<"ROOT", <<>>>>))

AsList(f) == LET dom == DOMAIN f IN {<<p, f[p]>> : p \in dom}

Eq(p, q) == /\ depth = 0 /\ UNCHANGED d
            /\ last' = [a |-> "Eq", p |-> p, q |-> q, same |-> Same(p, q)]
Put(p, v) == /\ d' = [x \in DOMAIN d \cup {p} |-> IF x = p THEN v ELSE d[x]]
             /\ last' = [a |-> "Put", p |-> p, v |-> v]
Get(q) == /\ UNCHANGED d
          /\ last' = [a |-> "Get", q |-> q, r |-> IF q \in DOMAIN d THEN d[q] ELSE 0 - 1]
Del(q) == /\ q \in DOMAIN d
          /\ d' = [x \in DOMAIN d \ {q} |-> d[x]]
          /\ last' = [a |-> "Del", q |-> q]

Next == \/ (depth = 0 /\ depth' = MaxDepth /\ \E p, q \in Path : Eq(p, q))     \* a comparison ends the behaviour
        \/ /\ depth < MaxDepth /\ depth' = depth + 1
           /\ \/ \E p \in DP : \E v \in {1, 2} : Put(p, v)
              \/ \E q \in DP : Get(q)
              \/ \E q \in DP : Del(q)

Spec == Init /\ [][Next]_vars

(* a dictionary keyed by paths holds at most one entry per path: by construction (functions) *)
TypeOK == DOMAIN d \subseteq Path
View == <<d, depth, IF last.a = "Eq" THEN last ELSE <<>> >>
Emit == PrintT(ToJson(<<"TR", AsList(d), last', AsList(d')>>))
=============================================================================
