-------------------------------- MODULE Expr --------------------------------
(***************************************************************************)
(* xdeps.refs: building and evaluating deferred expressions (C04, C05,     *)
(* C11 first half, C12 per node class, C06 for expressions).               *)
(*                                                                         *)
(* The state is an expression under construction (cur, an AST with one     *)
(* constructor per refs.py node class), the contents of the containers     *)
(* (env) and the definitions of two target locations (defs).  One action   *)
(* = one Python-level operation on real reference objects:                 *)
(*   Atom      s['a'], s['e'].p, s['l'][0], s['l'][s['i']], LiteralExpr(v) *)
(*   BinR/BinL  cur <op> v   /   v <op> cur      (reflected forms; Python  *)
(*              turns  v < cur  into  cur > v)                             *)
(*   BinRef    cur <op> s[x]  /  s[x] <op> cur                             *)
(*   Un        -cur  +cur  ~cur                                            *)
(*   Bi        abs round divmod math.trunc/floor/ceil                      *)
(*   Call      f.lin(cur, y=.., k=..)   (function container, kwargs)       *)
(*   Index     s['l'][cur]              (computed key)                     *)
(*   IndexAttr s['g'][cur].p            (attribute of a computed-key item) *)
(*   Assign    s[t] = cur               (through the manager)              *)
(*   InPlace   s[t] <op>= v             (old expression or old value)      *)
(*   SetEnv    s[x] = v                 (operands change, targets follow)  *)
(*                                                                         *)
(* Eval is the deferred semantics: PyVal (what Python computes on the      *)
(* operand values) plus the single documented deviation, / // % by zero    *)
(* give NaN.  Locs is the specification of _get_dependencies.              *)
(***************************************************************************)
EXTENDS PyVal, Json, TLCExt

CONSTANTS MaxDepth,      \* calls per behaviour
          MaxSize,       \* operator nodes in cur
          OpSet,         \* binary operators enumerated
          LitSet,        \* literal operands enumerated
          EnvSet,        \* names of the initial environments enumerated
          MaxMgr,        \* manager-side calls (in-place operators, operand changes) per behaviour; none is followed by more building
          Full           \* BOOLEAN: enumerate every builtin / call / in-place form (else a reduced set)

VARIABLES cur, defs, env, last, depth, mg
vars == <<cur, defs, env, last, depth, mg>>
Node == <<cur, defs, env>>
View == <<cur, defs, env, depth, mg>>
Id   == <<TLCFP(cur), TLCFP(<<"s1", cur>>), TLCFP(<<cur, "s2">>), TLCFP(defs), TLCFP(<<defs, "s">>), TLCFP(env), TLCFP(<<"s", env>>)>>
       \* identity of a node in the emitted graph: TLCFP gives 32 bits, so several differently salted fingerprints per component

Leaf    == {"a", "b", "i", "t1", "t2", "e.p", "l.0", "l.1", "g.0.p", "g.1.p"}
Targets == {"t1", "t2"}
Par     == [l \in Leaf \cup {"e", "l", "g", "g.0", "g.1"} |->
               CASE l = "e.p" -> "e" [] l \in {"l.0", "l.1"} -> "l" [] l = "g.0.p" -> "g.0" [] l = "g.1.p" -> "g.1" [] l \in {"g.0", "g.1"} -> "g" [] OTHER -> "/"]
RECURSIVE Chain(_)
Chain(l) == IF Par[l] = "/" THEN {l} ELSE {l} \cup Chain(Par[l])

NoExpr   == [k |-> "none"]
Ref(l)   == [k |-> "ref", l |-> l]                 \* ItemRef / AttrRef, constant keys
Cont(c)  == [k |-> "cont", c |-> c]                \* a reference whose value is a container: "s" (Ref), "l", "e" (ItemRef)
Dyn(o, key) == [k |-> "dyn", o |-> o, key |-> key] \* ItemRef with a computed key
DynA(key) == [k |-> "dyna", key |-> key]          \* AttrRef ON an ItemRef with a computed key: s['g'][key].p  (g: a list of two objects)
Lit(v)   == [k |-> "lit", v |-> v]                 \* a plain Python number standing as operand
LitE(v)  == [k |-> "lite", v |-> v]                \* LiteralExpr(v)
Bin(o, a, b) == [k |-> "bin", op |-> o, a |-> a, b |-> b]
Un(o, a)     == [k |-> "un", op |-> o, a |-> a]
Bi(f, a, p)  == [k |-> "bi", f |-> f, a |-> a, p |-> p]          \* p: sequence of operands
Call(a, kw)  == [k |-> "call", args |-> a, kw |-> kw]            \* f.lin(*args, **kw); kw: sequence of <<name, operand>>

RECURSIVE Eval(_, _), Locs(_), Reads(_), Size(_), EvalSeq(_, _), LocsSeq(_), ReadsSeq(_), SizeSeq(_)

EvalSeq(s, m) == [i \in 1..Len(s) |-> Eval(s[i], m)]
FirstRaise(vs) == IF \E i \in 1..Len(vs) : IsRaise(vs[i]) THEN vs[CHOOSE i \in 1..Len(vs) : IsRaise(vs[i]) /\ \A j \in 1..(i - 1) : ~IsRaise(vs[j])]
                  ELSE Opaque

(* f.lin(x, y=0, k=1) == x + 2 * y + 3 * k, evaluated by Python on the argument values *)
Lin(x, y, k) == PyBin("+", PyBin("+", x, PyBin("*", I(2), y)), PyBin("*", I(3), k))
KwGet(kw, vals, name, dflt) == IF \E i \in 1..Len(kw) : kw[i][1] = name THEN vals[CHOOSE i \in 1..Len(kw) : kw[i][1] = name] ELSE dflt

Eval(e, m) ==
  CASE e.k = "ref"  -> m[e.l]
    [] e.k = "cont" -> Opaque
    [] e.k = "lit"  -> e.v
    [] e.k = "lite" -> e.v
    [] e.k = "dyn"  -> LET kv == Eval(e.key, m) IN
                       IF IsRaise(kv) THEN kv
                       ELSE IF ~IsNum(kv) THEN Opaque
                       ELSE IF ~IsInt(kv) THEN TE                                       \* list indices must be integers
                       ELSE IF kv.n \in {0, 1} THEN m["l." \o ToString(kv.n)]
                       ELSE IF kv.n \in {0 - 1, 0 - 2} THEN m["l." \o ToString(kv.n + 2)] \* negative indices count from the end
                       ELSE Raise("IndexError")
    [] e.k = "dyna" -> LET kv == Eval(e.key, m) IN
                       IF IsRaise(kv) THEN kv
                       ELSE IF ~IsNum(kv) THEN Opaque
                       ELSE IF ~IsInt(kv) THEN TE
                       ELSE IF kv.n \in {0, 1} THEN m["g." \o ToString(kv.n) \o ".p"]
                       ELSE IF kv.n \in {0 - 1, 0 - 2} THEN m["g." \o ToString(kv.n + 2) \o ".p"]
                       ELSE Raise("IndexError")
    [] e.k = "bin"  -> DefBin(e.op, Eval(e.a, m), Eval(e.b, m))
    [] e.k = "un"   -> PyUn(e.op, Eval(e.a, m))
    [] e.k = "bi"   -> PyBuiltin(e.f, Eval(e.a, m), EvalSeq(e.p, m))
    [] e.k = "call" -> LET av == EvalSeq(e.args, m)
                           kv == [i \in 1..Len(e.kw) |-> Eval(e.kw[i][2], m)]
                           all == av \o kv
                       IN IF \E i \in 1..Len(all) : IsRaise(all[i]) THEN FirstRaise(all)
                          ELSE Lin(av[1], IF Len(av) > 1 THEN av[2] ELSE KwGet(e.kw, kv, "y", I(0)), KwGet(e.kw, kv, "k", I(1)))

LocsSeq(s) == UNION {Locs(s[i]) : i \in 1..Len(s)}
(* every item / attribute location occurring anywhere in e (with its enclosing containers below the label) *)
Locs(e) ==
  CASE e.k = "ref"  -> Chain(e.l)
    [] e.k = "cont" -> IF e.c = "s" THEN {} ELSE {e.c}
    [] e.k \in {"lit", "lite"} -> {}
    [] e.k = "dyn"  -> {e.o} \cup Locs(e.key) \cup {"l.[*]"}             \* the computed-key reference itself
    [] e.k = "dyna" -> {"g", "g.[*]", "g.[*].p"} \cup Locs(e.key)       \* the list, the computed-key item, its attribute, and what the key reads
    [] e.k = "bin"  -> Locs(e.a) \cup Locs(e.b)
    [] e.k = "un"   -> Locs(e.a)
    [] e.k = "bi"   -> Locs(e.a) \cup LocsSeq(e.p)
    [] e.k = "call" -> {"f:lin"} \cup LocsSeq(e.args) \cup UNION {Locs(e.kw[i][2]) : i \in 1..Len(e.kw)}

ReadsSeq(s) == UNION {Reads(s[i]) : i \in 1..Len(s)}
(* leaves whose value can influence Eval *)
Reads(e) ==
  CASE e.k = "ref"  -> {e.l}
    [] e.k \in {"cont", "lit", "lite"} -> {}
    [] e.k = "dyn"  -> {"l.0", "l.1"} \cup Reads(e.key)
    [] e.k = "dyna" -> {"g.0.p", "g.1.p"} \cup Reads(e.key)
    [] e.k = "bin"  -> Reads(e.a) \cup Reads(e.b)
    [] e.k = "un"   -> Reads(e.a)
    [] e.k = "bi"   -> Reads(e.a) \cup ReadsSeq(e.p)
    [] e.k = "call" -> ReadsSeq(e.args) \cup UNION {Reads(e.kw[i][2]) : i \in 1..Len(e.kw)}

SizeSeq(s) == IF s = <<>> THEN 0 ELSE Size(Head(s)) + SizeSeq(Tail(s))
Size(e) == CASE e.k \in {"ref", "cont", "lit", "lite", "none"} -> 0
             [] e.k \in {"dyn", "dyna"} -> 1 + Size(e.key)
             [] e.k = "bin" -> 1 + Size(e.a) + Size(e.b)
             [] e.k = "un"  -> 1 + Size(e.a)
             [] e.k = "bi"  -> 1 + Size(e.a) + SizeSeq(e.p)
             [] e.k = "call" -> 1 + SizeSeq(e.args) + SizeSeq([i \in 1..Len(e.kw) |-> e.kw[i][2]])

---------------------------------------------------------------------------
(* initial environments: what the containers hold *)
EnvOf(n) ==
  CASE n = "ints"   -> [l \in Leaf |-> CASE l = "a" -> I(3) [] l = "b" -> I(0 - 2) [] l = "i" -> I(1) [] l = "e.p" -> I(5) [] l = "l.0" -> I(7) [] l = "l.1" -> I(0) [] l = "g.0.p" -> I(4) [] l = "g.1.p" -> I(9) [] OTHER -> I(0)]
    [] n = "floats" -> [l \in Leaf |-> CASE l = "a" -> F(1, 2) [] l = "b" -> F(0 - 3, 2) [] l = "i" -> I(0) [] l = "e.p" -> F(2, 1) [] l = "l.0" -> F(5, 4) [] l = "l.1" -> I(2) [] l = "g.0.p" -> F(3, 1) [] l = "g.1.p" -> I(6) [] OTHER -> I(0)]
    [] n = "bools"  -> [l \in Leaf |-> CASE l = "a" -> Bo(TRUE) [] l = "b" -> Bo(FALSE) [] l = "i" -> Bo(TRUE) [] l = "e.p" -> I(0 - 1) [] l = "l.0" -> Bo(TRUE) [] l = "l.1" -> F(0, 1) [] l = "g.0.p" -> Bo(FALSE) [] l = "g.1.p" -> I(2) [] OTHER -> I(0)]
    [] n = "zeros"  -> [l \in Leaf |-> CASE l = "a" -> I(0) [] l = "b" -> F(0, 1) [] l = "i" -> I(0 - 1) [] l = "e.p" -> I(0 - 3) [] l = "l.0" -> I(0) [] l = "l.1" -> I(4) [] l = "g.0.p" -> I(0) [] l = "g.1.p" -> F(0, 1) [] OTHER -> I(0)]

Init == /\ cur = NoExpr
        /\ defs = [t \in Targets |-> NoExpr]
        /\ \E n \in EnvSet : env = EnvOf(n)
        /\ last = [a |-> "Init"]
        /\ depth = 0
        /\ mg = 0
        /\ PrintT(ToJson(<<"ROOT", Id>>))

Obs(e, m) == [val |-> IF e = NoExpr THEN Opaque ELSE Eval(e, m), locs |-> IF e = NoExpr THEN {} ELSE Locs(e)]

Swap(op) == CASE op = "<" -> ">" [] op = "<=" -> ">=" [] op = ">" -> "<" [] op = ">=" -> "<=" [] OTHER -> op
Cmp == {"<", "<=", ">", ">="}
EqOps == {"==", "!="}

Grow(e, a) == /\ Size(e) <= MaxSize
              /\ cur' = e /\ UNCHANGED <<defs, env>>
              /\ last' = a

Atoms == {Ref(l) : l \in {"a", "b", "e.p", "l.0", "t1"}} \cup {Dyn("l", Ref("i")), DynA(Ref("i")), LitE(I(3)), LitE(F(1, 2)), Cont("l"), Cont("s")}

Atom(x) == /\ cur = NoExpr /\ (x.k = "ref" /\ x.l \in Targets => defs[x.l] # NoExpr)
           /\ Grow(x, [a |-> "Atom", x |-> x])

Numeric(e) == e.k # "cont"      \* a container is only ever an argument (of a call / unary minus for the dependency check)

BinR(op, v) == /\ cur # NoExpr /\ Numeric(cur)
               /\ Grow(Bin(op, cur, Lit(v)), [a |-> "BinR", op |-> op, v |-> v])
(* v <op> cur: Python calls the reflected method; for an ordering comparison that is the MIRRORED comparison on cur *)
BinL(op, v) == /\ cur # NoExpr /\ Numeric(cur) /\ op \notin EqOps
               /\ Grow(IF op \in Cmp THEN Bin(Swap(op), cur, Lit(v)) ELSE Bin(op, Lit(v), cur), [a |-> "BinL", op |-> op, v |-> v])
BinRef(op, l, side) == /\ cur # NoExpr /\ Numeric(cur)
                       /\ Grow(IF side = "r" THEN Bin(op, cur, Ref(l)) ELSE Bin(op, Ref(l), cur),
                               [a |-> "BinRef", op |-> op, l |-> l, side |-> side])
UnA(op) == /\ cur # NoExpr
           /\ Grow(Un(op, cur), [a |-> "Un", op |-> op])

BiForms == {<<"abs", <<>>>>, <<"round", <<>>>>, <<"round", <<Lit(I(1))>>>>, <<"round", <<Lit(I(0))>>>>, <<"round", <<Ref("i")>>>>,
            <<"divmod", <<Lit(I(2))>>>>, <<"divmod", <<Ref("b")>>>>, <<"trunc", <<>>>>, <<"floor", <<>>>>, <<"ceil", <<>>>>}
           \cup (IF Full THEN {<<"round", <<Lit(I(0 - 1))>>>>, <<"round", <<Lit(F(1, 2))>>>>, <<"divmod", <<Lit(I(0))>>>>, <<"divmod", <<Lit(F(0 - 3, 2))>>>>} ELSE {})
BiA(fp) == /\ cur # NoExpr /\ Numeric(cur)
           /\ Grow(Bi(fp[1], cur, fp[2]), [a |-> "Bi", f |-> fp[1], p |-> fp[2]])

CallForms == {<<"pos", <<>>>>, <<"y", <<>>>>, <<"posk", <<"k", Ref("b")>>>>, <<"lity", <<"y">>>>}
CallA(form) ==
  /\ cur # NoExpr /\ Numeric(cur)
  /\ LET c == CASE form[1] = "pos"  -> Call(<<cur>>, <<>>)                               \* f.lin(cur)
                [] form[1] = "y"    -> Call(<<Lit(I(1))>>, <<<<"y", cur>>>>)               \* f.lin(1, y=cur)
                [] form[1] = "posk" -> Call(<<cur, Ref("a")>>, <<<<"k", Ref("b")>>>>)      \* f.lin(cur, s['a'], k=s['b'])
                [] form[1] = "lity" -> Call(<<cur>>, <<<<"y", Lit(F(1, 2))>>, <<"k", Lit(I(2))>>>>)   \* f.lin(cur, y=0.5, k=2)
     IN Grow(c, [a |-> "Call", form |-> form[1]])

IndexA == /\ cur # NoExpr /\ Numeric(cur) /\ Grow(Dyn("l", cur), [a |-> "Index"])
IndexAttrA == /\ cur # NoExpr /\ Numeric(cur) /\ Grow(DynA(cur), [a |-> "IndexAttr"])

---------------------------------------------------------------------------
(* the manager side: assignment, in-place operators, operand changes *)

(* recompute the defined targets after contents changed: t1 before t2 when t2 reads t1 (never the reverse).  A     *)
(* target is re-evaluated when its REPORTED dependencies (with enclosing containers) meet what was written, so a   *)
(* definition reading s['l'][0] is re-run (and may raise again) when s['l'][1] is assigned.                       *)
(* When both are triggered independently and one of them raises, which of the two ran first is not determined by  *)
(* the data flow (amb): such steps are not enumerated.                                                           *)
Recompute(m, D, changed) ==
  LET Hit(e, ch) == Locs(e) \cap UNION {Chain(x) : x \in ch} # {}      \* as Manager.tla's Triggered: reported dependencies meet the chains of what was written
      trig1 == D["t1"] # NoExpr /\ Hit(D["t1"], changed)
      r1 == IF trig1 THEN Eval(D["t1"], m) ELSE m["t1"]
      ok1 == ~IsRaise(r1)
      m1 == IF ok1 THEN [m EXCEPT !["t1"] = r1] ELSE m
      ch2 == IF trig1 THEN changed \cup {"t1"} ELSE changed
      trig2 == D["t2"] # NoExpr /\ Hit(D["t2"], ch2)
      dep21 == D["t2"] # NoExpr /\ "t1" \in Reads(D["t2"])
      r2 == IF trig2 THEN Eval(D["t2"], m1) ELSE m1["t2"]
  IN [m |-> IF ok1 /\ ~IsRaise(r2) THEN [m1 EXCEPT !["t2"] = r2] ELSE m1,
      exc |-> IF ~ok1 THEN r1.e ELSE IF IsRaise(r2) THEN r2.e
              ELSE IF (trig1 /\ r1 = Opaque) \/ (trig2 /\ r2 = Opaque) THEN "opaque" ELSE "none",
      amb |-> trig1 /\ trig2 /\ ~dep21 /\ (~ok1 \/ IsRaise(r2))]

(* An Opaque value may stand for "CPython raises here" (overflow, a complex result fed to an ordering, ...): the   *)
(* outcome of a step whose deciding value is Opaque is then "opaque", i.e. taken from CPython on the mirrored term. *)
(* s[t] = cur *)
Assign(t) ==
  /\ cur # NoExpr /\ Numeric(cur) /\ t \notin Reads(cur)
  /\ (t = "t1" => "t2" \notin Reads(cur))
  /\ LET v == Eval(cur, env) IN
     IF IsRaise(v)
     THEN /\ UNCHANGED <<env>> /\ defs' = [defs EXCEPT ![t] = cur] /\ cur' = NoExpr      \* registered, then evaluation raised
          /\ last' = [a |-> "Assign", t |-> t, exc |-> v.e]
     ELSE LET r == Recompute([env EXCEPT ![t] = v], [defs EXCEPT ![t] = cur], {t}) IN
          /\ ~r.amb
          /\ env' = r.m /\ defs' = [defs EXCEPT ![t] = cur] /\ cur' = NoExpr
          /\ last' = [a |-> "Assign", t |-> t, exc |-> IF v = Opaque THEN "opaque" ELSE r.exc]

IpOps == {"+", "-", "*", "@", "/", "//", "%", "**", "<<", ">>", "&", "|", "^"}
(* s[t] <op>= v : the old EXPRESSION combined with v when t is defined by one, else the old VALUE (plain Python) *)
InPlace(t, op, v) ==
  /\ cur = NoExpr
  /\ IF t \in Targets /\ defs[t] # NoExpr
     THEN LET e == Bin(op, defs[t], Lit(v))
              x == Eval(e, env) IN
          /\ Size(e) <= MaxSize + 1
          /\ IF IsRaise(x)
             THEN /\ UNCHANGED env /\ defs' = [defs EXCEPT ![t] = e] /\ UNCHANGED cur
                  /\ last' = [a |-> "InPlace", t |-> t, op |-> op, v |-> v, exc |-> x.e]
             ELSE LET r == Recompute([env EXCEPT ![t] = x], [defs EXCEPT ![t] = e], {t}) IN
                  /\ ~r.amb
                  /\ env' = r.m /\ defs' = [defs EXCEPT ![t] = e] /\ UNCHANGED cur
                  /\ last' = [a |-> "InPlace", t |-> t, op |-> op, v |-> v, exc |-> IF x = Opaque THEN "opaque" ELSE r.exc]
     ELSE LET x == PyBin(op, env[t], v) IN                                   \* immediate: no NaN guard here
          IF IsRaise(x)
          THEN /\ UNCHANGED <<env, defs, cur>>
               /\ last' = [a |-> "InPlace", t |-> t, op |-> op, v |-> v, exc |-> x.e]
          ELSE LET r == Recompute([env EXCEPT ![t] = x], defs, {t}) IN
               /\ ~r.amb
               /\ env' = r.m /\ UNCHANGED <<defs, cur>>
               /\ last' = [a |-> "InPlace", t |-> t, op |-> op, v |-> v, exc |-> IF x = Opaque THEN "opaque" ELSE r.exc]

(* s[x] = v for an undefined leaf: the targets follow *)
SetEnv(l, v) ==
  /\ cur = NoExpr /\ l \notin Targets /\ env[l] # v
  /\ \E t \in Targets : defs[t] # NoExpr
  /\ LET r == Recompute([env EXCEPT ![l] = v], defs, {l}) IN
     /\ ~r.amb
     /\ env' = r.m /\ UNCHANGED <<defs, cur>>
     /\ last' = [a |-> "SetEnv", l |-> l, v |-> v, exc |-> r.exc]

IpLits == IF Full THEN LitSet ELSE {I(2), I(0), F(1, 2), I(0 - 1)}
IpTargets == {"t1", "a", "e.p", "l.0"}

Build == \/ \E x \in Atoms : Atom(x)
         \/ \E op \in OpSet : \E v \in LitSet : BinR(op, v) \/ BinL(op, v)
         \/ \E op \in OpSet : \E l \in {"a", "b", "l.1"} : \E sd \in {"l", "r"} : BinRef(op, l, sd)
         \/ \E op \in UnOps : UnA(op)
         \/ \E fp \in BiForms : BiA(fp)
         \/ \E f \in CallForms : CallA(f)
         \/ IndexA \/ IndexAttrA
         \/ \E t \in Targets : Assign(t)
Mgr ==   \/ \E t \in IpTargets : \E op \in IpOps : \E v \in IpLits : InPlace(t, op, v)
         \/ \E l \in {"a", "b", "i", "l.1", "g.1.p"} : \E v \in {I(0), I(2), F(0 - 3, 2), Bo(TRUE)} : SetEnv(l, v)

Next == /\ depth < MaxDepth
        /\ depth' = depth + 1
        /\ \/ (mg = 0 /\ Build /\ mg' = 0)
           \/ (mg < MaxMgr /\ Mgr /\ mg' = mg + 1)

Spec == Init /\ [][Next]_vars

---------------------------------------------------------------------------
(* checked on the model itself *)

(* C05, dynamic clause: a location whose change changes the value is a reported dependency, or lies inside a     *)
(* reported container (computed keys: s['l'][s['i']] reports s['l'], s['i'] and itself, and assigning s['l'][0]  *)
(* starts from s['l'][0] AND s['l'], MutableRef._get_dependencies)                                              *)
Sensitive == cur = NoExpr \/
             \A l \in Leaf \ Targets : \A v \in {I(0), I(2), F(0 - 3, 2)} :
                Eval(cur, [env EXCEPT ![l] = v]) # Eval(cur, env) => Chain(l) \cap Locs(cur) # {}
(* defined targets hold the value of their definition (unless the last update was cut short by an exception) *)
Fresh == ("exc" \in DOMAIN last /\ last.exc # "none") \/
         \A t \in Targets : defs[t] # NoExpr => LET v == Eval(defs[t], env) IN IsRaise(v) \/ env[t] = v
ReadsInLocs == cur = NoExpr \/ (Reads(cur) \ {"l.0", "l.1", "g.0.p", "g.1.p"}) \subseteq Locs(cur)

(* constant sets the cfg files pick from *)
OpsAll   == BinOps
OpsArith == {"+", "-", "*", "/", "//", "%", "**"}
OpsFew   == {"+", "/", "**", "<", "&", "<<", "%"}
LitsAll  == Catalogue
LitsFew  == {I(0), I(2), I(0 - 1), F(1, 2), Bo(TRUE)}
LitsTwo  == {I(0), F(0 - 3, 2)}
EnvsAll  == {"ints", "floats", "bools", "zeros"}
EnvsTwo  == {"ints", "floats"}
EnvsOne  == {"ints"}

(* emission: one line per generated transition (fingerprints of source and target) and one per distinct state *)
Emit   == PrintT(ToJson(<<"TR", Id, last', Id'>>))
EmitSt == PrintT(ToJson(<<"ST", Id, Node, Obs(cur, env), [t \in Targets |-> Obs(defs[t], env)]>>))
=============================================================================
