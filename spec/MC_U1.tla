------------------------------- MODULE MC_U1 -------------------------------
(* Universe U1: flat leaves a, b and a nested dict n{x,y}; function container f with f.total.          *)
(* Bound to Python by harness/bind.py: "a" -> s['a'], "n.x" -> s['n']['x'], "f:total" -> f.total         *)
EXTENDS Integers, Sequences, FiniteSets, TLC, Json
CONSTANTS Faults, Extras, Transfers, MaxDepth, EmitIdx
VARIABLES mem, defs, reg, kprev, frozen, ghost, last, depth

LeafSeq == <<"a", "b", "n.x", "n.y">>
cLeaf == {LeafSeq[i] : i \in 1..Len(LeafSeq)}
cLoc  == cLeaf \cup {"n", "f:total"}
cPar  == [l \in cLoc |-> IF l \in {"n.x", "n.y"} THEN "n" ELSE "/"]
cValsOf == [l \in cLeaf |-> {7, -1}]
cInitMem == [l \in cLeaf |-> CASE l = "a" -> 1 [] l = "b" -> 2 [] l = "n.x" -> 3 [] l = "n.y" -> 4]

R(l) == [k |-> "ref", l |-> l]
L(v) == [k |-> "lit", v |-> v]
B(o, a, b) == [k |-> "bin", op |-> o, a |-> a, b |-> b]

cMenu == {R(p) : p \in cLeaf}
   \cup {B("+", R(LeafSeq[i]), R(LeafSeq[j])) : <<i, j>> \in {<<1, 2>>, <<1, 3>>, <<3, 4>>, <<2, 4>>}}
   \cup {B("*", R(p), L(2)) : p \in cLeaf}
   \cup {B("-", L(10), R(p)) : p \in {"a", "n.x"}}
   \cup {[k |-> "neg", a |-> R(p)] : p \in {"b", "n.y"}}
   \cup {[k |-> "tot", c |-> "n"]}
   \cup {[k |-> "rnd", a |-> B("*", R("a"), L(5)), p |-> R("b")], [k |-> "rnd", a |-> R("n.x"), p |-> R("a")]}
   \cup {B("+", B("*", R("a"), L(2)), R("n.y")), B("*", B("+", R("n.x"), L(1)), R("b"))}

cTaskSpec == [t \in {"F1", "K1"} |->
   IF t = "F1" THEN [kind |-> "fn", deps |-> {"a", "n.x"}, targets |-> {"b"}, out |-> "b", ins |-> <<"a", "n.x">>]
   ELSE [kind |-> "knob", src |-> "a", deps |-> {"a"}, targets |-> {"b", "n.y"}, tl |-> <<"b", "n.y">>, w |-> <<2, 3>>]]

cIpOps == {"+", "*"}
cIpArgs == {3}

INSTANCE Manager WITH KeepLoc <- "b", KeepExpr <- B("+", R("a"), L(1)), Loc <- cLoc, Leaf <- cLeaf, Par <- cPar, ValsOf <- cValsOf, InitMem <- cInitMem,
   Menu <- cMenu, ExprTargets <- cLeaf, TaskSpec <- cTaskSpec, IpOps <- cIpOps, IpArgs <- cIpArgs

ASSUME PrintT(ToJson(<<"INIT", <<cInitMem, [l \in cLeaf |-> NoDef], {}, [t \in DOMAIN cTaskSpec |-> 0], FALSE, {}>>>>))
ASSUME PrintT(ToJson(<<"META", cTaskSpec>>))
=============================================================================
