------------------------------- MODULE RowSel -------------------------------
(***************************************************************************)
(* xdeps.Table.rows[...] : the documented selector semantics (C08), as     *)
(* pure operators.  A table is its index column t (a sequence of names)    *)
(* plus two data columns derived from the position: v (all distinct) and   *)
(* u (with ties).  Sel(t, s) is the sequence of 0-based row positions a    *)
(* selector denotes, IN THE ORDER THE RESULT MUST HAVE, or KeyError.       *)
(*                                                                         *)
(* This is the "transcribe a case-rich pure function and turn every        *)
(* enumerated case into one implementation test" use of TLC: there is no   *)
(* behaviour, every initial state is one case (table, selector [,second    *)
(* selector]) and carries the expected answer.                             *)
(*                                                                         *)
(* A regular expression is modelled by the SET OF NAMES it fully matches   *)
(* (case-insensitively); the binding (harness/rowsel.py) turns a set into  *)
(* several concrete patterns ('a|b', '[ab]', 'A', '.*', ...).              *)
(***************************************************************************)
EXTENDS Integers, Sequences, FiniteSets, TLC, Json

CONSTANTS Names, MaxLen, Mode      \* Mode: "single" | "pair"
          , PairMaxLen

VARIABLE case

NoCount == 99
None    == -99                      \* "bound / endpoint not given"
KE      == [ok |-> FALSE, rows |-> <<>>]
Ok(q)   == [ok |-> TRUE, rows |-> q]

V(n) == [i \in 1..n |-> (3 * i) % 5]
U(n) == [i \in 1..n |-> i \div 2]

Occ(t, n) == SelectSeq([i \in 1..Len(t) |-> i], LAMBDA i : t[i] = n)
(* 0-based position of the c-th occurrence of n (negative from the end), or -1000 *)
Resolve(t, n, c) ==
  LET occ == Occ(t, n)
      cc  == IF c = NoCount THEN 0 ELSE IF c < 0 THEN c + Len(occ) ELSE c
  IN IF cc >= 0 /\ cc < Len(occ) THEN occ[cc + 1] - 1 ELSE -1000

RECURSIVE SortAsc(_)
SortAsc(S) == IF S = {} THEN <<>> ELSE LET m == CHOOSE x \in S : \A y \in S : x <= y IN <<m>> \o SortAsc(S \ {m})

Inside(t, q) == \A i \in 1..Len(q) : q[i] >= 0 /\ q[i] < Len(t)

(* ---- selector constructors ---- *)
Pos(i)         == [k |-> "pos", i |-> i]
List(l)        == [k |-> "list", l |-> l]
Mask(m)        == [k |-> "mask", m |-> m]
Re(R, c, o)    == [k |-> "re", R |-> R, c |-> c, o |-> o]           \* regex matching exactly the names R, ::c, >>o / <<-o
Span(a, b)     == [k |-> "span", a |-> a, b |-> b]                  \* a, b: <<name, count>> or <<>> (open end)
Range(lo, hi, col) == [k |-> "range", lo |-> lo, hi |-> hi, col |-> col]
Slice(a, b, st) == [k |-> "slice", a |-> a, b |-> b, st |-> st]     \* plain integer slice a:b:st (None = omitted)

End(t, e, dflt) == IF e = <<>> THEN dflt ELSE Resolve(t, e[1], e[2])

Sel(t, s) ==
  LET n == Len(t) IN
  CASE s.k = "pos"  -> Ok(<<IF s.i < 0 THEN n + s.i ELSE s.i>>)
    [] s.k = "list" -> Ok(s.l)
    [] s.k = "mask" -> Ok(SelectSeq([i \in 1..n |-> i - 1], LAMBDA p : s.m[p + 1]))
    [] s.k = "re"   ->
         IF s.c = NoCount
         THEN Ok([j \in 1..Len(SelectSeq([i \in 1..n |-> i], LAMBDA i : t[i] \in s.R)) |->
                     SelectSeq([i \in 1..n |-> i], LAMBDA i : t[i] \in s.R)[j] - 1 + s.o])
         ELSE LET hits == {Resolve(t, nm, s.c) : nm \in s.R} \ {-1000}
                  q == SortAsc(hits)                                   \* table order, whatever the hash seed
              IN Ok([j \in 1..Len(q) |-> q[j] + s.o])
    [] s.k = "span" ->
         LET lo == End(t, s.a, 0)  hi == End(t, s.b, n - 1)
         IN IF lo = -1000 \/ hi = -1000 THEN KE
            ELSE Ok([j \in 1..(IF hi >= lo THEN hi - lo + 1 ELSE 0) |-> lo + j - 1])
    [] s.k = "range" ->
         LET col == IF s.col = "v" THEN V(n) ELSE U(n)
         IN Ok(SelectSeq([i \in 1..n |-> i - 1],
                         LAMBDA p : (s.lo = None \/ s.lo <= col[p + 1]) /\ (s.hi = None \/ col[p + 1] <= s.hi)))
    [] s.k = "slice" ->
         LET a  == IF s.a = None THEN 0 ELSE IF s.a > n THEN n ELSE s.a
             b  == IF s.b = None THEN n ELSE IF s.b > n THEN n ELSE s.b
         IN Ok(SelectSeq([i \in 1..n |-> i - 1], LAMBDA p : p >= a /\ p < b /\ (p - a) % s.st = 0))

(* rows[s1, s2] = rows[s1].rows[s2], mapped back to positions of t *)
SubTable(t, q) == [j \in 1..Len(q) |-> t[q[j] + 1]]

(* ---- the selectors enumerated for a table of n rows ---- *)
Bools == {TRUE, FALSE}
Masks(n) == IF n = 0 THEN {<<>>} ELSE IF n <= 3 THEN [1..n -> Bools]
            ELSE {[i \in 1..n |-> i % 2 = 0], [i \in 1..n |-> i = 1 \/ i = n], [i \in 1..n |-> FALSE], [i \in 1..n |-> TRUE], [i \in 1..n |-> i > 2]}
Lists(n) == IF n = 0 THEN {<<>>} ELSE {<<>>, <<0>>, <<n - 1, 0>>, <<n - 1, n - 1>>} \cup (IF n >= 3 THEN {<<2, 0, 1>>} ELSE {})
NameSets == {{"a"}, {"b"}, {"a", "b"}, {"a", "b", "c"}, {}}
Ends == {<<>>} \cup {<<nm, NoCount>> : nm \in Names} \cup {<<"a", 1>>, <<"b", -1>>}

Selectors(n) ==
     {Pos(i) : i \in (0 - (IF n > 0 THEN 1 ELSE 0))..(n - 1)}
  \cup {List(l) : l \in Lists(n)}
  \cup {Mask(m) : m \in Masks(n)}
  \cup {Re(R, c, o) : R \in NameSets, c \in {NoCount, 0, 1, -1, 2}, o \in {0, 1, -1}}
  \cup {Span(a, b) : a \in Ends, b \in Ends}
  \cup {Range(lo, hi, col) : lo \in {None, 1, 3}, hi \in {None, 1, 3}, col \in {"v", "u"}}
  \cup {Slice(None, None, 2), Slice(1, 3, 1), Slice(None, 2, 1), Slice(1, None, 1)}

(* the reduced second-selector menu of the composition law *)
Selectors2(n) ==
     {Pos(i) : i \in 0..(n - 1)}
  \cup {List(l) : l \in Lists(n)}
  \cup {Mask(m) : m \in Masks(n)}
  \cup {Re(R, c, o) : R \in {{"a"}, {"a", "b"}, {"a", "b", "c"}}, c \in {NoCount, 0, -1}, o \in {0, 1}}
  \cup {Span(a, b) : a \in {<<>>, <<"a", NoCount>>}, b \in {<<>>, <<"b", -1>>, <<"c", NoCount>>}}
  \cup {Range(lo, hi, "v") : lo \in {None, 1}, hi \in {None, 3}}

Tables(m) == UNION {IF n = 0 THEN {<<>>} ELSE [1..n -> Names] : n \in 0..m}

(* a case is kept when its answer is defined by the statement: every row lands inside the table *)
Valid(t, r) == ~r.ok \/ Inside(t, r.rows)

SingleInit ==
  \E t \in Tables(MaxLen) : \E s \in Selectors(Len(t)) :
     LET r == Sel(t, s) IN
     /\ Valid(t, r)
     /\ case = <<t, s>>
     /\ PrintT(ToJson(<<"CASE", t, <<s>>, r>>))

PairInit ==
  \E t \in Tables(PairMaxLen) : \E s1 \in Selectors2(Len(t)) :
     LET r1 == Sel(t, s1) IN
     /\ r1.ok /\ Inside(t, r1.rows)
     /\ \E s2 \in Selectors2(Len(r1.rows)) :
          LET t1 == SubTable(t, r1.rows)
              r2 == Sel(t1, s2)
          IN /\ Valid(t1, r2)
             /\ ~(s2.k = "range")          \* value columns of the sub-table are not position-derived: ranges only as first selector
             /\ case = <<t, s1, s2>>
             /\ PrintT(ToJson(<<"CASE", t, <<s1, s2>>,
                                IF r2.ok THEN Ok([j \in 1..Len(r2.rows) |-> r1.rows[r2.rows[j] + 1]]) ELSE KE>>))

(* the n-ary form of the law, n = 3: rows[s1, s2, s3] = rows[s1].rows[s2].rows[s3] *)
Selectors3(n) ==
     {Pos(i) : i \in 0..(n - 1)}
  \cup {Re(R, c, o) : R \in {{"a"}, {"a", "b"}, {"a", "b", "c"}}, c \in {NoCount, -1}, o \in {0, 1}}
  \cup {Span(a, b) : a \in {<<>>, <<"a", NoCount>>}, b \in {<<>>, <<"b", -1>>}}
  \cup {Slice(1, None, 1), Slice(None, 2, 1), Slice(None, None, 2)}
  \cup {List(l) : l \in Lists(n)}
TripleInit ==
  \E t \in Tables(PairMaxLen) : \E s1 \in Selectors3(Len(t)) \cup {Range(1, None, "v")} :
     LET r1 == Sel(t, s1) IN
     /\ r1.ok /\ Inside(t, r1.rows)
     /\ \E s2 \in Selectors3(Len(r1.rows)) :
          LET t1 == SubTable(t, r1.rows)
              r2 == Sel(t1, s2)
          IN /\ r2.ok /\ Inside(t1, r2.rows)
             /\ \E s3 \in Selectors3(Len(r2.rows)) :
                  LET t2 == SubTable(t1, r2.rows)
                      r3 == Sel(t2, s3)
                  IN /\ Valid(t2, r3)
                     /\ case = <<t, s1, s2, s3>>
                     /\ PrintT(ToJson(<<"CASE", t, <<s1, s2, s3>>,
                                        IF r3.ok THEN Ok([j \in 1..Len(r3.rows) |-> r1.rows[r2.rows[r3.rows[j] + 1] + 1]]) ELSE KE>>))

Init == IF Mode = "single" THEN SingleInit ELSE IF Mode = "pair" THEN PairInit ELSE TripleInit
Next == UNCHANGED case

(* sanity of the reference semantics itself *)
Sane == TRUE
=============================================================================
