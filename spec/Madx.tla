-------------------------------- MODULE Madx --------------------------------
(***************************************************************************)
(* xdeps.madxutils: the MAD-X expression grammar (calc_grammar) and its    *)
(* two evaluators (C19).                                                   *)
(*                                                                         *)
(* The state is an abstract syntax tree grown one grammar production at a  *)
(* time (wrap in a unary sign, combine with an atom on either side by a    *)
(* binary operator, pass to a function).  For every tree the module gives  *)
(*   Tok(e, "min")   the token sequence with the FEWEST parentheses the    *)
(*                   grammar allows: sum < product < power < atom, all     *)
(*                   binary operators left-associative, the power too, a   *)
(*                   unary sign binds tighter than every binary operator   *)
(*   Tok(e, "full")  the fully parenthesised token sequence                *)
(*   Imm(e, env)     the value of immediate evaluation (plain Python on    *)
(*                   the operand values: numbers are floats, variables and  *)
(*                   element attributes hold ints or floats)               *)
(*   Def(e, env)     the value of the deferred expression: the same,       *)
(*                   except division by zero gives NaN                     *)
(* Parsing Tok(e, "min") must yield exactly the grouping of e: that is how *)
(* a change of precedence or associativity in the grammar, or of an        *)
(* operator function in MadxEval, shows as a different number.             *)
(***************************************************************************)
EXTENDS PyVal, Json, TLCExt

CONSTANTS MaxDepth,      \* productions applied
          AtomSet,       \* "all" | "few"
          EnvSet

VARIABLES e, depth
vars == <<e, depth>>

Num(v)       == [k |-> "num", v |-> v]              \* NUMBER -> float
Var(n)       == [k |-> "var", n |-> n]              \* NAME (dotted names allowed)
Elem(el, a)  == [k |-> "elem", el |-> el, a |-> a]  \* NAME "->" NAME
Neg(a)       == [k |-> "neg", a |-> a]
Pos(a)       == [k |-> "pos", a |-> a]
Bin(o, a, b) == [k |-> "bin", op |-> o, a |-> a, b |-> b]     \* op in + - * / ^   (^ also spelled **)
Call1(f, a)  == [k |-> "call1", f |-> f, a |-> a]
Call2(f, a, b) == [k |-> "call2", f |-> f, a |-> a, b |-> b]

Level(x) == CASE x.k = "bin" /\ x.op \in {"+", "-"} -> 1
              [] x.k = "bin" /\ x.op \in {"*", "/"} -> 2
              [] x.k = "bin" /\ x.op = "^" -> 3
              [] OTHER -> 4

RECURSIVE Tok(_, _), TokAt(_, _, _)
(* tokens of x where the grammar expects a phrase of at least level lvl *)
TokAt(x, lvl, style) == IF style = "full" \/ Level(x) < lvl
                        THEN (IF x.k \in {"num", "var", "elem", "call1", "call2"} /\ style = "min" THEN Tok(x, style) ELSE <<"(">> \o Tok(x, style) \o <<")">>)
                        ELSE Tok(x, style)
Tok(x, style) ==
  CASE x.k = "num"  -> <<[t |-> "num", v |-> x.v]>>
    [] x.k = "var"  -> <<x.n>>
    [] x.k = "elem" -> <<x.el, "->", x.a>>
    [] x.k = "neg"  -> <<"-">> \o TokAt(x.a, 4, style)
    [] x.k = "pos"  -> <<"+">> \o TokAt(x.a, 4, style)
    [] x.k = "bin"  -> LET l == Level(x) IN TokAt(x.a, l, style) \o <<x.op>> \o TokAt(x.b, l + 1, style)
    [] x.k = "call1" -> <<x.f, "(">> \o Tok(x.a, style) \o <<")">>
    [] x.k = "call2" -> <<x.f, "(">> \o Tok(x.a, style) \o <<",">> \o Tok(x.b, style) \o <<")">>

(* ---- values ------------------------------------------------------------------------------------------------------ *)
AsFloat(v) == IF IsNum(v) THEN Mk("float", v.n, v.d) ELSE v
RECURSIVE ISqrt(_, _)
ISqrt(n, r) == IF r * r = n THEN r ELSE IF r * r > n THEN 0 - 1 ELSE ISqrt(n, r + 1)
Fn1(f, x) ==
  IF IsRaise(x) THEN x ELSE IF ~IsNum(x) THEN Opaque
  ELSE CASE f = "fabs"  -> Mk("float", Abs(x.n), x.d)
         [] f = "floor" -> I(x.n \div x.d)
         [] f = "ceil"  -> I(0 - ((0 - x.n) \div x.d))
         [] f = "sqrt"  -> IF x.n < 0 THEN VE
                           ELSE LET a == ISqrt(x.n, 0)  b == ISqrt(x.d, 1) IN IF a >= 0 /\ b >= 0 THEN Mk("float", a, b) ELSE Opaque
         [] OTHER -> Opaque                                            \* sin, exp, ...: libm decides
Fn2(f, x, y) ==
  IF IsRaise(x) THEN x ELSE IF IsRaise(y) THEN y ELSE IF ~(IsNum(x) /\ IsNum(y)) THEN Opaque
  ELSE CASE f = "pow"   -> IF x.n = 0 /\ y.n < 0 THEN VE ELSE AsFloat(NumBin("**", x, y))     \* math.pow: a float; 0 ** negative is a domain error
         [] f = "fmod"  -> IF y.n = 0 THEN VE
                           ELSE LET N == x.n * y.d  D == x.d * y.n                                   \* x / y = N / D
                                    q == IF (N >= 0) = (D > 0) THEN Abs(N) \div Abs(D) ELSE 0 - (Abs(N) \div Abs(D))   \* truncated quotient
                                IN Mk("float", x.n * y.d - q * y.n * x.d, x.d * y.d)
         [] f = "copysign" -> IF y.n = 0 THEN Opaque                        \* the sign of a zero is not in this model
                              ELSE Mk("float", IF y.n < 0 THEN 0 - Abs(x.n) ELSE Abs(x.n), x.d)
         [] OTHER -> Opaque                                            \* atan2, hypot

RECURSIVE Ev(_, _, _)
Ev(x, env, deferred) ==
  CASE x.k = "num"  -> x.v
    [] x.k = "var"  -> env.v[x.n]
    [] x.k = "elem" -> env.e[x.el][x.a]
    [] x.k = "neg"  -> PyUn("-", Ev(x.a, env, deferred))
    [] x.k = "pos"  -> PyUn("+", Ev(x.a, env, deferred))
    [] x.k = "bin"  -> LET a == Ev(x.a, env, deferred)  b == Ev(x.b, env, deferred)
                           op == IF x.op = "^" THEN "**" ELSE x.op
                       IN IF deferred THEN DefBin(op, a, b) ELSE PyBin(op, a, b)
    [] x.k = "call1" -> Fn1(x.f, Ev(x.a, env, deferred))
    [] x.k = "call2" -> Fn2(x.f, Ev(x.a, env, deferred), Ev(x.b, env, deferred))
Imm(x, env) == Ev(x, env, FALSE)
Def(x, env) == Ev(x, env, TRUE)

RECURSIVE Names(_)
Names(x) == CASE x.k = "num" -> {} [] x.k = "var" -> {<<"v", x.n>>} [] x.k = "elem" -> {<<"e", x.el, x.a>>}
              [] x.k \in {"neg", "pos", "call1"} -> Names(x.a)
              [] x.k \in {"bin", "call2"} -> Names(x.a) \cup Names(x.b)

(* ---- environments and atoms ---------------------------------------------------------------------------------------- *)
EnvOf(n) ==
  CASE n = "ints"   -> [v |-> [x \in {"a", "b.c", "z_0"} |-> CASE x = "a" -> I(2) [] x = "b.c" -> I(0 - 3) [] OTHER -> I(0)],
                        e |-> [el \in {"el", "m.q1"} |-> [a \in {"k1", "l"} |-> IF el = "el" /\ a = "k1" THEN I(4) ELSE IF a = "l" THEN F(1, 2) ELSE I(1)]]]
    [] n = "floats" -> [v |-> [x \in {"a", "b.c", "z_0"} |-> CASE x = "a" -> F(1, 2) [] x = "b.c" -> F(2, 1) [] OTHER -> F(0, 1)],
                        e |-> [el \in {"el", "m.q1"} |-> [a \in {"k1", "l"} |-> IF el = "el" /\ a = "k1" THEN F(0 - 3, 2) ELSE IF a = "l" THEN F(4, 1) ELSE F(1, 4)]]]
    [] n = "mixed"  -> [v |-> [x \in {"a", "b.c", "z_0"} |-> CASE x = "a" -> I(0 - 1) [] x = "b.c" -> F(1, 4) [] OTHER -> I(0)],
                        e |-> [el \in {"el", "m.q1"} |-> [a \in {"k1", "l"} |-> IF el = "el" /\ a = "k1" THEN I(0) ELSE IF a = "l" THEN I(3) ELSE F(0 - 1, 2)]]]

Atoms == IF AtomSet = "all"
         THEN {Num(F(2, 1)), Num(F(1, 2)), Num(F(3, 1)), Num(F(0, 1)), Var("a"), Var("b.c"), Var("z_0"), Elem("el", "k1"), Elem("m.q1", "l")}
         ELSE {Num(F(2, 1)), Num(F(1, 2)), Var("a"), Var("b.c"), Elem("el", "k1")}
Ops == {"+", "-", "*", "/", "^"}
F1 == {"fabs", "floor", "ceil", "sqrt", "sin"}
F2 == {"pow", "fmod", "copysign", "atan2"}

None == [k |-> "none"]
Init == e = None /\ depth = 0
Next == /\ depth < MaxDepth /\ depth' = depth + 1
        /\ IF e = None THEN \E a \in Atoms : e' = a
           ELSE \/ e' = Neg(e) \/ e' = Pos(e)
                \/ \E o \in Ops : \E a \in Atoms : e' = Bin(o, e, a) \/ e' = Bin(o, a, e)
                \/ \E f \in F1 : e' = Call1(f, e)
                \/ \E f \in F2 : \E a \in Atoms : e' = Call2(f, e, a) \/ e' = Call2(f, a, e)
Spec == Init /\ [][Next]_vars

EnvsAll == {"ints", "floats", "mixed"}
EnvsOne == {"mixed"}

Case == [ast |-> e, min |-> Tok(e, "min"), full |-> Tok(e, "full"), names |-> Names(e),
         vals |-> [n \in EnvSet |-> [imm |-> Imm(e, EnvOf(n)), def |-> Def(e, EnvOf(n))]]]
Emit == e = None \/ PrintT(ToJson(<<"CASE", Case>>))
EmitEnv == PrintT(ToJson(<<"ENVS", [n \in EnvSet |-> EnvOf(n)]>>))
ASSUME EmitEnv
=============================================================================
