------------------------------- MODULE MC_U5 -------------------------------
(* Universe U5: three flat locations r, x, y and a menu in which x and y can read each other in either direction: *)
(* histories that NARROW a definition (y = x + r, then y = r * 2) and then REVERSE the data flow (x = y + r), with  *)
(* freeze / faults / unregister in between, explored 4-5 calls deep.                                              *)
EXTENDS Integers, Sequences, FiniteSets, TLC, Json
CONSTANTS Faults, Extras, Transfers, MaxDepth, EmitIdx, Episodes
VARIABLES mem, defs, reg, kprev, frozen, ghost, last, depth

LeafSeq == <<"a", "b", "c">>
cLeaf == {LeafSeq[i] : i \in 1..Len(LeafSeq)}
cLoc  == cLeaf \cup {"f:total"}
cPar  == [l \in cLoc |-> "/"]
cValsOf == [l \in cLeaf |-> {7}]
cInitMem == [l \in cLeaf |-> CASE l = "a" -> 1 [] l = "b" -> 2 [] l = "c" -> 3]

R(l) == [k |-> "ref", l |-> l]
L(v) == [k |-> "lit", v |-> v]
B(o, a, b) == [k |-> "bin", op |-> o, a |-> a, b |-> b]

\* a = the root;  b and c read a and each other
cMenu == {B("+", R("b"), R("a")), B("+", R("c"), R("a")), B("*", R("a"), L(2)), B("+", B("*", R("b"), L(3)), R("c"))}

cTaskSpec == [t \in {"O1"} |-> [kind |-> "obs", deps |-> {"a"}, targets |-> {}]]

cIpOps == {"+"}
cIpArgs == {3}

INSTANCE Manager WITH KeepLoc <- "b", KeepExpr <- B("*", R("a"), L(2)), Loc <- cLoc, Leaf <- cLeaf, Par <- cPar, ValsOf <- cValsOf, InitMem <- cInitMem,
   Menu <- cMenu, ExprTargets <- {"b", "c"}, TaskSpec <- cTaskSpec, IpOps <- cIpOps, IpArgs <- cIpArgs

ASSUME PrintT(ToJson(<<"INIT", <<cInitMem, [l \in cLeaf |-> NoDef], {}, [t \in DOMAIN cTaskSpec |-> 0], FALSE, {}>>>>))
ASSUME PrintT(ToJson(<<"META", cTaskSpec>>))
=============================================================================
