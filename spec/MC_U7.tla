------------------------------- MODULE MC_U7 -------------------------------
(* Universe U7: NESTED UPDATES.  Three flat locations a, c, d; the function task N1 reacts to a and ASSIGNS d = a + a THROUGH THE MANAGER  *)
(* (an inner set_value started from inside a running task), the observer O1 watches d.  Definitions of c may read a and d, so that the    *)
(* same task is reached by the outer and by the inner update; faults may hit any position of the flat run order.                           *)
EXTENDS Integers, Sequences, FiniteSets, TLC, Json
CONSTANTS Faults, Extras, Transfers, MaxDepth, EmitIdx, Episodes
VARIABLES mem, defs, reg, kprev, frozen, ghost, last, depth

LeafSeq == <<"a", "c", "d">>
cLeaf == {LeafSeq[i] : i \in 1..Len(LeafSeq)}
cLoc  == cLeaf \cup {"f:total"}
cPar  == [l \in cLoc |-> "/"]
cValsOf == [l \in cLeaf |-> IF l = "a" THEN {7, 5} ELSE {7}]      \* two values for the source: a second assignment must be visible in the dependants
cInitMem == [l \in cLeaf |-> CASE l = "a" -> 1 [] l = "c" -> 3 [] l = "d" -> 4]

R(l) == [k |-> "ref", l |-> l]
L(v) == [k |-> "lit", v |-> v]
B(o, a, b) == [k |-> "bin", op |-> o, a |-> a, b |-> b]

cMenu == {B("+", R("a"), R("d")), B("*", R("d"), L(2)), B("+", R("c"), L(1)), R("a"), R("d"), B("-", L(10), R("a")), B("*", R("a"), L(2))}

\* F1: an ordinary function task a -> c (declared target), so that a definition READING c can be added downstream of it after a has been assigned
cTaskSpec == [t \in {"N1", "O1", "F1"} |->
   IF t = "N1" THEN [kind |-> "nest", deps |-> {"a"}, targets |-> {}, nout |-> "d", ins |-> <<"a", "a">>]
   ELSE IF t = "F1" THEN [kind |-> "fn", deps |-> {"a"}, targets |-> {"c"}, out |-> "c", ins |-> <<"a", "a">>]
   ELSE [kind |-> "obs", deps |-> {"d"}, targets |-> {}]]

INSTANCE Manager WITH KeepLoc <- "c", KeepExpr <- B("+", R("a"), L(1)), Loc <- cLoc, Leaf <- cLeaf, Par <- cPar, ValsOf <- cValsOf, InitMem <- cInitMem,
   Menu <- cMenu, ExprTargets <- cLeaf, TaskSpec <- cTaskSpec, IpOps <- {}, IpArgs <- {}

ASSUME PrintT(ToJson(<<"INIT", <<cInitMem, [l \in cLeaf |-> NoDef], {}, [t \in DOMAIN cTaskSpec |-> 0], FALSE, {}>>>>))
ASSUME PrintT(ToJson(<<"META", cTaskSpec>>))
=============================================================================
