SPECIFICATION Spec
CONSTANTS
  MaxCalls = 2
  MaxFaults = 2
INVARIANT C09_ok
INVARIANT C09_restore
INVARIANT C10_inlim
INVARIANT C10_flags
INVARIANT C10_fixed
INVARIANT C15_best
INVARIANT C15_reload
INVARIANT C15_last
CHECK_DEADLOCK FALSE
