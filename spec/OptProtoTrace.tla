--------------------------- MODULE OptProtoTrace ---------------------------
(***************************************************************************)
(* Recorded sessions of real xdeps.Optimize objects checked against the    *)
(* actions of OptProto.tla.                                                *)
(*                                                                         *)
(* A trace = the environment MEASURED by the harness oracle for the points *)
(* the session visited (knob coordinates, knobs inside their limits,       *)
(* targets within tolerance, penalty ranks per set of active targets) +    *)
(* one event per public call: arguments, outcome, the rows the call        *)
(* appended to the log (point, flags), and knobs / flags / log length      *)
(* afterwards.  What happens INSIDE a call (which evaluation raised, which *)
(* points the solver tried) is not logged: TLC searches the micro-steps of *)
(* OptProto for a path from the state before the call to the logged state  *)
(* after it, pruned by the logged rows.  An event for which no such path   *)
(* exists is a call the protocol does not allow: the trace stops there.    *)
(* Many traces per run: sc (the scenario of OptProto) is the trace number. *)
(***************************************************************************)
EXTENDS Integers, Sequences, FiniteSets, TLC, Json, IOUtils

VARIABLES sc, ep, cur, vact, tact, log, pc, ctx, faults, calls, ret, l
tvars == <<sc, ep, cur, vact, tact, log, pc, ctx, faults, calls, ret, l>>

Traces == JsonDeserialize(IOEnv.TRACE_FILE)
ToSet(s) == {s[i] : i \in 1..Len(s)}
TraceEnv == [i \in 1..Len(Traces) |->
               LET e == Traces[i].env IN
               [nk |-> e.nk, nt |-> e.nt, npts |-> e.npts, nep |-> e.nep, start |-> e.start, nmax |-> e.nmax, restore |-> e.restore,
                coord |-> e.coord, pen |-> e.pen,
                inlimk |-> [p \in 1..e.npts |-> ToSet(e.inlimk[p])],
                tolt   |-> [x \in 1..e.nep |-> [p \in 1..e.npts |-> ToSet(e.tolt[x][p])]]]]
Outs == UNION {{Traces[i].events[j].out : j \in 1..Len(Traces[i].events)} : i \in 1..Len(Traces)}
TraceSolverExc == Outs \ {"ok", "InjectedFault", "RuntimeError"}
Big == 1000000

INSTANCE OptProto WITH Env <- TraceEnv, SolverExc <- TraceSolverExc, MaxCalls <- Big, MaxFaults <- Big

NEv == Len(Traces[sc].events)
Ev  == Traces[sc].events[l]

RowMatch(r, er) == r.pt = er.pt /\ r.va = ToSet(er.va) /\ r.ta = ToSet(er.ta)
(* the rows this call has appended so far are a prefix of the rows it was seen to append *)
Consistent(e, lg, prelen) == \A i \in (prelen + 1)..Len(lg) : (i - prelen) <= Len(e.rows) /\ RowMatch(lg[i], e.rows[i - prelen])
(* the logged state after the call *)
Match(e, c, va, ta, lg, out) == /\ c = e.af.cur /\ va = ToSet(e.af.vact) /\ ta = ToSet(e.af.tact)
                                /\ Len(lg) = e.af.loglen /\ out = e.out
Reached == PrintT(<<"AT", sc, l + 1, NEv>>)

TraceInit == Init /\ l = 1

(* a public call begins: the one the trace says, with its arguments *)
TBegin ==
  /\ pc = "idle" /\ l <= NEv
  /\ LET e == Ev IN
     \/ /\ e.ev = "Step"   /\ CallStep(e.n, e.take_best, ToSet(e.en_v), ToSet(e.dis_v), ToSet(e.dis_t), ToSet(e.en_t)) /\ l' = l
     \/ /\ e.ev = "Solve"  /\ CallSolve /\ l' = l
     \/ /\ e.ev = "Tag"    /\ CallTag /\ l' = l
     \/ /\ e.ev = "Retarget" /\ CallRetarget /\ Match(e, cur', vact', tact', log', ret'.out) /\ l' = l + 1 /\ Reached
     \/ /\ e.ev = "ClearLog" /\ CallClear /\ l' = l
     \/ /\ e.ev = "Reload" /\ e.it >= 0 /\ e.it < Len(log) /\ CallReload(e.it + 1) /\ l' = l
     \/ /\ e.ev = "Reload" /\ ~(e.it >= 0 /\ e.it < Len(log)) /\ e.out # "ok" /\ CallReloadMissing(e.out)
        /\ Match(e, cur', vact', tact', log', ret'.out) /\ l' = l + 1 /\ Reached
     \/ /\ e.ev \in {"Enable", "Disable"} /\ CallFlags(e.ev = "Enable", ToSet(e.v), ToSet(e.t))
        /\ Match(e, cur', vact', tact', log', ret'.out) /\ l' = l + 1 /\ Reached

(* inside the call: any micro-step of the protocol that stays consistent with what was logged *)
TMicro ==
  /\ pc # "idle" /\ l <= NEv
  /\ Micro
  /\ LET e == Ev
         prelen == IF e.ev = "ClearLog" THEN 0 ELSE ctx.pre.loglen IN
     /\ Consistent(e, log', prelen)
     /\ IF pc' = "idle" THEN Match(e, cur', vact', tact', log', ret'.out) /\ l' = l + 1 /\ Reached
                        ELSE l' = l

TraceNext == TBegin \/ TMicro
TraceSpec == TraceInit /\ [][TraceNext]_tvars
=============================================================================
