------------------------------ MODULE Manager ------------------------------
(***************************************************************************)
(* xdeps.tasks.Manager as a history-free state machine.                    *)
(*                                                                         *)
(* The state is the PRIMARY state only: container contents (mem), the      *)
(* current definitions (defs: expression tasks keyed by their target,      *)
(* reg: registered function / linear-knob tasks), the previous source      *)
(* value kept by each linear knob, and the frozen flag.  None of the four  *)
(* reverse indices of the implementation (rdeps, rtasks, deptasks,         *)
(* tartasks) is state here: they are DERIVED (Idx* operators below), which *)
(* is what makes "the implementation agrees with this machine after every  *)
(* step" the same as history independence (C03).                           *)
(*                                                                         *)
(* One action = one public call (tasks.py):                                *)
(*   SetValue  = Manager.set_value(ref, plain value)      239-253          *)
(*   SetExpr   = Manager.set_value(ref, expression)       239-253          *)
(*   InPlace   = MutableRef.__iadd__ & co + __setitem__   refs.py 550-625  *)
(*   Unregister, RegisterTask = Manager.unregister / register 262-307      *)
(*   Freeze / Unfreeze, Stutter(refresh|cleanup|verify|clone) 309-315,511+ *)
(*   SetValueFault / SetExprFault: the same calls with the k-th container  *)
(*   write raising (C18).                                                  *)
(***************************************************************************)
EXTENDS Integers, Sequences, FiniteSets, TLC, Json

CONSTANTS
  Loc,          \* every location: inner containers and leaves, e.g. "a", "n", "n.x", "f:total"
  Leaf,         \* locations holding numbers (assignable)
  Par,          \* [Loc -> Loc \cup {"/"}]   owner of a location ("/" = member of a top-level container)
  ValsOf,       \* [Leaf -> SUBSET Int]      plain values tried by SetValue
  InitMem,      \* [Leaf -> Int]
  Menu,         \* expression ASTs tried by SetExpr
  ExprTargets,  \* leaves that may receive an expression
  TaskSpec,     \* [id -> record] function / knob task menu (ids are not in Loc)
  IpOps,        \* in-place operators tried, subset of {"+","-","*"}
  IpArgs,       \* literal operands of in-place operators
  Faults,       \* BOOLEAN: enable fault actions
  Extras,       \* BOOLEAN: enable freeze/unfreeze/stutter/unregister/register actions
  Transfers,    \* BOOLEAN: enable pickle / dump+load / copy_expr_from / gen_fun actions (C11, C12, C13)
  KeepLoc, KeepExpr,   \* the pre-existing definition of the copy_keep transfer
  MaxDepth,
  EmitIdx,      \* BOOLEAN: attach derived index supports to every emitted label
  Episodes      \* BOOLEAN: compute EpSafe (where a frozen episode is the identity) for the emitted source states (C17)

VARIABLES mem, defs, reg, kprev, frozen, ghost, last, depth

vars  == <<mem, defs, reg, kprev, frozen, ghost, last, depth>>
State == <<mem, defs, reg, kprev, frozen, ghost>>       \* the abstract state compared with the implementation
View  == <<State, depth>>                               \* the VIEW: `last' is an observation only; depth layers the graph

---------------------------------------------------------------------------
(* Expression ASTs: one constructor per refs.py node kind used here.       *)
NoDef       == [k |-> "none"]
Ref(l)      == [k |-> "ref", l |-> l]                    \* ItemRef / AttrRef with constant keys
Lit(v)      == [k |-> "lit", v |-> v]                    \* plain number operand (or LiteralExpr)
Bin(o,a,b)  == [k |-> "bin", op |-> o, a |-> a, b |-> b] \* AddExpr / SubExpr / MulExpr
Neg(a)      == [k |-> "neg", a |-> a]                    \* NegExpr
Tot(c)      == [k |-> "tot", c |-> c]                    \* CallRef f.total(<inner container c>)
Rnd(a,p)    == [k |-> "rnd", a |-> a, p |-> p]           \* BuiltinRef round(a, p) with p an expression
Dyn(o,key)  == [k |-> "dyn", o |-> o, key |-> key]       \* ItemRef with computed key  o[<key>]

---------------------------------------------------------------------------
(* Paths.                                                                  *)
RECURSIVE Chain(_)
Chain(l) == IF Par[l] = "/" THEN {l} ELSE {l} \cup Chain(Par[l])     \* MutableRef._get_dependencies
Comparable(p, q) == p \in Chain(q) \/ q \in Chain(p)
Children(c) == {x \in Leaf : Par[x] = c}
Child(o, v) == o \o "." \o ToString(v)
Sym(o, key) == o \o ".[" \o (IF key.k = "ref" THEN key.l ELSE "expr") \o "]"     \* symbolic location of a computed-key ref

RECURSIVE Locs(_), Reads(_), Eval(_, _), SumOver(_, _)
(* Locs = specification of _get_dependencies (C05): every location occurring in e, with owner chains. *)
Locs(e) == CASE e.k = "ref" -> Chain(e.l)
             [] e.k = "lit" -> {}
             [] e.k = "bin" -> Locs(e.a) \cup Locs(e.b)
             [] e.k = "neg" -> Locs(e.a)
             [] e.k = "tot" -> {"f:total"} \cup Chain(e.c)
             [] e.k = "rnd" -> Locs(e.a) \cup Locs(e.p)
             [] e.k = "dyn" -> Chain(e.o) \cup Locs(e.key) \cup {Sym(e.o, e.key)}
(* Reads = locations whose VALUE the expression uses (true data flow). *)
Reads(e) == CASE e.k = "ref" -> {e.l}
             [] e.k = "lit" -> {}
             [] e.k = "bin" -> Reads(e.a) \cup Reads(e.b)
             [] e.k = "neg" -> Reads(e.a)
             [] e.k = "tot" -> {e.c}
             [] e.k = "rnd" -> Reads(e.a) \cup Reads(e.p)
             [] e.k = "dyn" -> {e.o} \cup Reads(e.key)

SumOver(S, m) == IF S = {} THEN 0 ELSE LET x == CHOOSE y \in S : TRUE IN m[x] + SumOver(S \ {x}, m)

(* Python round(x, n) on ints: identity for n >= 0; for n < 0 round half to even at 10^-n *)
(* (values here stay far below 10^9, so any n <= -9 gives 0).                            *)
Round(x, n) == IF n >= 0 THEN x
               ELSE IF n <= -9 THEN 0
               ELSE LET p == 10 ^ (0 - n)  q == x \div p  r == x % p
                    IN IF 2 * r < p THEN p * q ELSE IF 2 * r > p THEN p * (q + 1)
                       ELSE IF q % 2 = 0 THEN p * q ELSE p * (q + 1)

Eval(e, m) == CASE e.k = "ref" -> m[e.l]
               [] e.k = "lit" -> e.v
               [] e.k = "bin" -> (CASE e.op = "+" -> Eval(e.a, m) + Eval(e.b, m)
                                    [] e.op = "-" -> Eval(e.a, m) - Eval(e.b, m)
                                    [] e.op = "*" -> Eval(e.a, m) * Eval(e.b, m))
               [] e.k = "neg" -> 0 - Eval(e.a, m)
               [] e.k = "tot" -> SumOver(Children(e.c), m)
               [] e.k = "rnd" -> Round(Eval(e.a, m), Eval(e.p, m))
               [] e.k = "dyn" -> m[Child(e.o, Eval(e.key, m))]

---------------------------------------------------------------------------
(* Tasks.  Expression tasks are identified by their target leaf; function  *)
(* and knob tasks by an id of TaskSpec.                                    *)
TaskIds == DOMAIN TaskSpec
Act(D, R) == {l \in Leaf : D[l] # NoDef} \cup R

TDeps(D, t)    == IF t \in Leaf THEN Locs(D[t])  ELSE TaskSpec[t].deps      \* declared sets taken literally
TTargets(D, t) == IF t \in Leaf THEN Chain(t)    ELSE TaskSpec[t].targets
TReads(D, t)   == IF t \in Leaf THEN Reads(D[t]) ELSE TaskSpec[t].deps
TWrites(t)     == IF t \in Leaf THEN {t}         ELSE TaskSpec[t].targets
WrittenBy(S)   == UNION {TWrites(t) : t \in S}

(* NESTED UPDATES.  A function task of kind "nest" does not write its output directly: its action ASSIGNS THROUGH THE MANAGER (s['d'] = ... inside  *)
(* the action), i.e. it starts a complete inner set_value while the outer one is still running.  It declares no targets (the inner update takes     *)
(* care of the consequences), so for the outer graph it writes nothing; NOut is the location its inner assignment names.                              *)
IsNest(t)      == t \in TaskIds /\ TaskSpec[t].kind = "nest"
NOut(t)        == TaskSpec[t].nout
WrittenByA(S)  == WrittenBy(S) \cup {NOut(t) : t \in {x \in S : IsNest(x)}}

Reported(D, u, t) == TTargets(D, u) \cap TDeps(D, t) # {}                    \* what rtasks encodes
Produces(D, u, t) == \E w \in TWrites(u), p \in TReads(D, t) : Comparable(w, p)   \* true data flow

RECURSIVE Close(_, _, _)
Close(D, R, T) == LET N == T \cup {t \in Act(D, R) : \E u \in T : Reported(D, u, t)}
                  IN IF N = T THEN T ELSE Close(D, R, N)
(* find_tasks(ref._get_dependencies()): start from the assigned location and its enclosing containers *)
Triggered(D, R, l) == Close(D, R, {t \in Act(D, R) : TDeps(D, t) \cap Chain(l) # {}})

(* data flow INCLUDING what nested updates write: a definition a := f(d) next to a nested task a -> d would recurse for ever *)
ProducesA(D, u, t) == Produces(D, u, t) \/ (IsNest(u) /\ \E p \in TReads(D, t) : Comparable(NOut(u), p))
RECURSIVE ReachP(_, _, _)
ReachP(D, A, T) == LET N == T \cup {t \in A : \E u \in T : ProducesA(D, u, t)}
                   IN IF N = T THEN T ELSE ReachP(D, A, N)
(* acyclic true data flow: no task is (transitively) its own producer *)
Acyclic(D, R) == LET A == Act(D, R)
                 IN \A t \in A : t \notin ReachP(D, A, {x \in A : ProducesA(D, t, x)})

RECURSIVE ReachR(_, _, _)
ReachR(D, T, S) == LET N == S \cup {t \in T : \E u \in S : u # t /\ Reported(D, u, t)}
                   IN IF N = S THEN S ELSE ReachR(D, T, N)
(* the reported graph restricted to T has a cycle through two distinct tasks: the implementation's *)
(* reverse post-order is then not guaranteed to be topological (KNOWN FINDING, DESIGN 3.5)         *)
StructCyclic(D, T) == \E u \in T : u \in ReachR(D, T, {x \in T : x # u /\ Reported(D, u, x)})

---------------------------------------------------------------------------
(* Running tasks.  A run state is [m, kp].                                 *)
RunTask(D, s, t) ==
  IF t \in Leaf THEN [s EXCEPT !.m[t] = Eval(D[t], s.m)]                         \* ExprTask.run
  ELSE LET sp == TaskSpec[t] IN
    IF sp.kind = "obs" THEN s                                                        \* a FunctionTask without targets (an observer): runs, writes nothing
    ELSE IF sp.kind = "fn" THEN [s EXCEPT !.m[sp.out] = s.m[sp.ins[1]] + s.m[sp.ins[2]]]   \* FunctionTask.run
    ELSE IF sp.kind = "nest" THEN [s EXCEPT !.m[sp.nout] = s.m[sp.ins[1]] + s.m[sp.ins[2]]] \* the WRITE of the inner set_value; its tasks follow in the flat order
    ELSE LET delta == s.m[sp.src] - s.kp[t]                                       \* LinearKnob.run
         IN [m  |-> [x \in Leaf |-> IF \E i \in 1..Len(sp.tl) : sp.tl[i] = x
                                    THEN s.m[x] + sp.w[CHOOSE i \in 1..Len(sp.tl) : sp.tl[i] = x] * delta
                                    ELSE s.m[x]],
             kp |-> [s.kp EXCEPT ![t] = s.m[sp.src]]]

RECURSIVE RunSeq(_, _, _)
RunSeq(D, s, q) == IF q = <<>> THEN s ELSE RunSeq(D, RunTask(D, s, Head(q)), Tail(q))

(* a set as some sequence (labels carry sequences: TLC 1.8 fails to spill lazily built set values of the   *)
(* unfingerprinted observation variable to its disk queue)                                               *)
RECURSIVE AsSeq(_)
AsSeq(S) == IF S = {} THEN <<>> ELSE LET x == CHOOSE y \in S : TRUE IN <<x>> \o AsSeq(S \ {x})

RECURSIVE PermSeqs(_)
PermSeqs(S) == IF S = {} THEN {<<>>} ELSE UNION {{<<x>> \o q : q \in PermSeqs(S \ {x})} : x \in S}

(* the orders the specification allows: linear extensions of true data flow *)
Allowed(D, T) == {q \in PermSeqs(T) : \A i, j \in 1..Len(q) : i < j => ~Produces(D, q[j], q[i])}
Prec(D, T)    == {<<u, t>> \in T \X T : u # t /\ Produces(D, u, t)}

(* The flat run orders of an update whose triggered set is T: an allowed order of T in which every nested task is followed at once by a flat order   *)
(* of ITS inner update (the tasks triggered by NOut, which may run a second time later in the outer order: two updates, each running its own        *)
(* triggered set once).  Without nested tasks this is Allowed(D, T).  Terminates because the data flow including nested writes is acyclic.           *)
RECURSIVE FlatOrders(_, _, _), ExpandSet(_, _, _)
ExpandSet(D, R, q) == IF q = <<>> THEN {<<>>}
                      ELSE LET t     == Head(q)
                               heads == IF IsNest(t) THEN {<<t>> \o n : n \in FlatOrders(D, R, Triggered(D, R, NOut(t)))} ELSE {<<t>>}
                               rest  == ExpandSet(D, R, Tail(q))
                           IN {h \o r : h \in heads, r \in rest}
FlatOrders(D, R, T) == IF \A t \in T : ~IsNest(t) THEN Allowed(D, T) ELSE UNION {ExpandSet(D, R, q) : q \in Allowed(D, T)}
RangeOf(q) == {q[i] : i \in 1..Len(q)}
HasNest(T) == \E t \in T : IsNest(t)

---------------------------------------------------------------------------
(* Derived indices (supports only): what the queries of C03 must answer.   *)
IdxRdeps(D, R)    == {<<x, y>> \in (UNION {TDeps(D, t) : t \in Act(D, R)}) \X (UNION {TTargets(D, t) : t \in Act(D, R)}) :
                        \E t \in Act(D, R) : x \in TDeps(D, t) /\ y \in TTargets(D, t)}
IdxDeptasks(D, R) == UNION {{<<x, t>> : x \in TDeps(D, t)} : t \in Act(D, R)}
IdxTartasks(D, R) == UNION {{<<x, t>> : x \in TTargets(D, t)} : t \in Act(D, R)}
IdxRtasks(D, R)   == {<<u, t>> \in Act(D, R) \X Act(D, R) : Reported(D, u, t)}
Idx(D, R) == IF EmitIdx THEN [rdeps |-> IdxRdeps(D, R), deptasks |-> IdxDeptasks(D, R),
                              tartasks |-> IdxTartasks(D, R), rtasks |-> IdxRtasks(D, R)]
             ELSE [off |-> TRUE]

---------------------------------------------------------------------------
Init == /\ mem = InitMem
        /\ defs = [l \in Leaf |-> NoDef]
        /\ reg = {}
        /\ kprev = [t \in TaskIds |-> 0]
        /\ frozen = FALSE
        /\ ghost = {}
        /\ last = [a |-> "Init"]
        /\ depth = 0

Unchanged == UNCHANGED <<mem, defs, reg, kprev, frozen, ghost>>

(* no two writers for one location *)
FreeTarget(l) == \A t \in reg : l \notin TaskSpec[t].targets /\ (TaskSpec[t].kind = "nest" => l # TaskSpec[t].nout)

(* Function / knob tasks carry DECLARED dependency and target sets which the manager takes literally (no owner   *)
(* chains are added for them).  A declaration that understates what a reader sees (a knob declared to write    *)
(* l[1] while another task reads the whole list l) is the user's error, not a manager defect: such             *)
(* configurations are outside the properties and excluded here.                                                *)
WellDeclared(D, R) == \A u \in R : \A t \in Act(D, R) : Produces(D, u, t) => Reported(D, u, t)

(* The update that follows the definitional phase: D1 new definitions, m1 contents after the write. *)
(* The canonical order is only a representative: Confluent asserts every allowed order agrees.     *)
Update(a, l, D1, m1) ==
  LET T   == TLCEval(Triggered(D1, reg, l))
      ord == FlatOrders(D1, reg, T)
      s0  == [m |-> m1, kp |-> kprev]
      res == {RunSeq(D1, s0, q) : q \in ord}
      s1  == CHOOSE r \in res : TRUE
      TA  == RangeOf(CHOOSE q \in ord : TRUE)             \* every task that runs, inner updates included (the same set for every flat order)
  IN /\ Assert(ord # {}, <<"no allowed order", a, l>>)
     /\ Assert(Cardinality(res) = 1, <<"not confluent", a, l, res>>)
     /\ mem' = s1.m
     /\ kprev' = s1.kp
     /\ defs' = D1
     /\ ghost' = {x \in Leaf : x \in ghost /\ x # l /\ x \notin WrittenByA(TA)}      \* every triggered task ran: its targets are fresh
     /\ UNCHANGED <<reg, frozen>>
     /\ last' = TLCEval(a @@ [exc |-> "none", trig |-> AsSeq(T), prec |-> AsSeq(Prec(D1, T)), cyc |-> StructCyclic(D1, T),
                              flat |-> IF HasNest(T) THEN AsSeq(ord) ELSE <<>>,      \* with nested updates the observed run list must be one of these
                              idx |-> Idx(D1, reg)])

Refuse(a) == /\ Unchanged
             /\ last' = a @@ [exc |-> "ValueError"]

SetValue(l, v) ==
  LET a == [a |-> "SetValue", l |-> l, v |-> v] IN
  IF frozen /\ defs[l] # NoDef THEN Refuse(a)
  ELSE Update(a, l, [defs EXCEPT ![l] = NoDef], [mem EXCEPT ![l] = v])

SetExprOK(l, e) == /\ l \in ExprTargets
                   /\ FreeTarget(l)
                   /\ Acyclic([defs EXCEPT ![l] = e], reg)
                   /\ WellDeclared([defs EXCEPT ![l] = e], reg)

SetExpr(l, e) ==
  LET a == [a |-> "SetExpr", l |-> l, e |-> e] IN
  /\ SetExprOK(l, e)
  /\ IF frozen THEN Refuse(a)
     ELSE Update(a, l, [defs EXCEPT ![l] = e], [mem EXCEPT ![l] = Eval(e, mem)])

ApplyOp(o, x, y) == CASE o = "+" -> x + y [] o = "-" -> x - y [] o = "*" -> x * y

(* s[l] op= x : old expression (op) x if l is expression-defined, else old value (op) x *)
InPlace(l, o, x) ==
  LET a == [a |-> "InPlace", l |-> l, op |-> o, x |-> x] IN
  IF defs[l] # NoDef
  THEN LET e == Bin(o, defs[l], Lit(x)) IN
       /\ SetExprOK(l, e)
       /\ IF frozen THEN Refuse(a)
          ELSE Update(a, l, [defs EXCEPT ![l] = e], [mem EXCEPT ![l] = Eval(e, mem)])
  ELSE Update(a, l, defs, [mem EXCEPT ![l] = ApplyOp(o, mem[l], x)])

Unregister(t) ==
  LET a == [a |-> "Unregister", t |-> t] IN
  /\ t \in Act(defs, reg)
  /\ IF frozen THEN Refuse(a)
     ELSE /\ defs' = IF t \in Leaf THEN [defs EXCEPT ![t] = NoDef] ELSE defs
          /\ reg' = reg \ {t}
          /\ ghost' = {x \in Leaf : x \in ghost /\ x \notin TWrites(t)}
          /\ UNCHANGED <<mem, kprev, frozen>>
          /\ last' = TLCEval(a @@ [exc |-> "none", idx |-> Idx(defs', reg')])

(* manager.load(dump, overwrite) on the manager ITSELF: the entries are taken in order; an entry whose target is already defined replaces that   *)
(* definition (overwrite) or is skipped; nothing is evaluated and nothing runs, so the loaded targets are stale until an update reaches them.   *)
(* A dump may name the same target more than once (the later entry wins / with overwrite = FALSE the first one stays).                          *)
RECURSIVE LoadFold(_, _, _)
LoadFold(D, sq, ow) == IF sq = <<>> THEN D
                       ELSE LET l == Head(sq)[1] e == Head(sq)[2] IN
                            LoadFold(IF D[l] # NoDef /\ ~ow THEN D ELSE [D EXCEPT ![l] = e], Tail(sq), ow)
LoadMenu  == LET e1 == CHOOSE e \in Menu : TRUE IN {e1, CHOOSE e \in Menu \ {e1} : TRUE}         \* two expressions of the menu
LoadPairs == ExprTargets \X LoadMenu
LoadSeqs  == IF Cardinality(Menu) > 6 THEN {}                                              \* only the universes with a small menu
             ELSE {<<p>> : p \in LoadPairs} \cup {pq \in LoadPairs \X LoadPairs : pq[1][1] = pq[2][1] /\ pq[1][2] # pq[2][2]}
Load(sq, ow) ==
  LET a  == [a |-> "Load", sq |-> sq, ow |-> ow]
      D1 == TLCEval(LoadFold(defs, sq, ow))
      ch == TLCEval({sq[i][1] : i \in 1..Len(sq)}) IN
  /\ \A l \in ch : FreeTarget(l)
  /\ Acyclic(D1, reg) /\ WellDeclared(D1, reg)
  /\ IF frozen THEN IF ow \/ \E l \in ch : defs[l] = NoDef THEN Refuse(a)           \* the first register / unregister refuses
                    ELSE Unchanged /\ last' = TLCEval(a @@ [exc |-> "none"])         \* every entry skipped
     ELSE /\ defs' = D1
          /\ ghost' = TLCEval({x \in Leaf : x \in ghost \/ (x \in ch /\ D1[x] # defs[x]) \/ (x \in ch /\ ow)})
          /\ UNCHANGED <<mem, reg, kprev, frozen>>
          /\ last' = TLCEval(a @@ [exc |-> "none", idx |-> Idx(D1, reg)])

(* manager.register(FunctionTask / LinearKnob); the knob constructor samples its source *)
RegisterTask(t) ==
  LET a == [a |-> "RegisterTask", t |-> t] IN
  /\ t \in TaskIds \ reg
  /\ \A x \in TaskSpec[t].targets : defs[x] = NoDef /\ FreeTarget(x)
  /\ (TaskSpec[t].kind = "nest" => defs[TaskSpec[t].nout] = NoDef /\ FreeTarget(TaskSpec[t].nout))     \* the inner assignment must not replace a definition
  /\ Acyclic(defs, reg \cup {t})
  /\ WellDeclared(defs, reg \cup {t})
  /\ IF frozen THEN Refuse(a)
     ELSE /\ reg' = reg \cup {t}
          /\ kprev' = IF TaskSpec[t].kind = "knob" THEN [kprev EXCEPT ![t] = mem[TaskSpec[t].src]] ELSE kprev
          /\ UNCHANGED <<mem, defs, frozen, ghost>>
          /\ last' = TLCEval(a @@ [exc |-> "none", idx |-> Idx(defs, reg')])

Freeze   == /\ ~frozen /\ frozen' = TRUE  /\ UNCHANGED <<mem, defs, reg, kprev, ghost>> /\ last' = [a |-> "Freeze", exc |-> "none"]
Unfreeze == /\ frozen  /\ frozen' = FALSE /\ UNCHANGED <<mem, defs, reg, kprev, ghost>> /\ last' = [a |-> "Unfreeze", exc |-> "none"]

(* refresh / cleanup / verify / switching to clone(): never change primary state.  A frozen manager may *)
(* refuse refresh (ValueError) or perform it; either way nothing observable changes (exc "any").        *)
Stutter(kind) == /\ Unchanged
                 /\ last' = TLCEval([a |-> "Stutter", kind |-> kind,
                                     exc |-> IF frozen /\ kind = "refresh" THEN "noneOrValueError" ELSE "none",
                                     idx |-> Idx(defs, reg)])

---------------------------------------------------------------------------
(* Faults (C18).  Position k = 0: the write of the assigned location itself raises; k >= 1: the first     *)
(* write of the k-th scheduled task raises.  Definitions are those after the definitional phase, the     *)
(* first k-1 scheduled tasks have taken effect, nothing after.  One successor per allowed order.         *)
FaultUpdate(a, l, D1, m1) ==
  LET T == TLCEval(Triggered(D1, reg, l)) IN
  \E q \in FlatOrders(D1, reg, T) : \E k \in 0..Len(q) :          \* with nested updates: any position of the flat order (the failure travels up through the nested task's run)
    LET s0 == [m |-> IF k = 0 THEN mem ELSE m1, kp |-> kprev]
        s1 == RunSeq(D1, s0, SubSeq(q, 1, k - 1))
    IN /\ mem' = s1.m
       /\ kprev' = s1.kp
       /\ defs' = D1
       /\ ghost' = {x \in Leaf : \/ x \in ghost                                          \* the targets of the tasks that did not run are stale
                                  \/ x \in WrittenByA({q[i] : i \in (IF k = 0 THEN 1 ELSE k)..Len(q)})
                                  \/ (k = 0 /\ x = l /\ D1[l] # NoDef)}                    \* a new definition whose first evaluation was not stored
       /\ UNCHANGED <<reg, frozen>>
       /\ last' = TLCEval(a @@ [exc |-> "Fault", k |-> k, ran |-> SubSeq(q, 1, k - 1),
                                failing |-> IF k = 0 THEN "write" ELSE q[k],
                                trig |-> AsSeq(T), prec |-> AsSeq(Prec(D1, T)), cyc |-> StructCyclic(D1, T)])

SetValueFault(l, v) ==
  /\ ~(frozen /\ defs[l] # NoDef)
  /\ FaultUpdate([a |-> "SetValue", l |-> l, v |-> v], l, [defs EXCEPT ![l] = NoDef], [mem EXCEPT ![l] = v])

SetExprFault(l, e) ==
  /\ SetExprOK(l, e) /\ ~frozen
  /\ FaultUpdate([a |-> "SetExpr", l |-> l, e |-> e], l, [defs EXCEPT ![l] = e], [mem EXCEPT ![l] = Eval(e, mem)])


---------------------------------------------------------------------------
(* Transfers (C11, C12): the manager is reproduced in a second manager and the behaviour continues there.   *)
(*   pickle_copy / pickle_orig : pickle.loads(pickle.dumps(m)); continue on the copy / on the original,     *)
(*                               the other one must stay as it was (independence)                           *)
(*   dumpload   : fresh manager over equal containers, load(dump())          (only expression tasks travel) *)
(*   copy_plain : fresh manager, copy_expr_from(old, "s")                                                    *)
(*   copy_bind  : fresh manager whose container holds the data one level down, copy_expr_from(old, "s",     *)
(*                bindings = {s: t['sub']}): every location is rebased, definitions are the same            *)
(*   copy_bind_keep : copy_bind and copy_keep together: rebased locations, overwrite = FALSE, the receiving   *)
(*                manager already defines the REBASED KeepLoc                                               *)
(*   copy_keep  : as copy_plain with overwrite = FALSE into a manager that already defines KeepLoc by       *)
(*                KeepExpr: that definition survives, the others are copied.  load() registers without       *)
(*                running, so the dependants of KeepLoc are stale until it is assigned again (ghost).        *)
Picklable == \A t \in reg : TaskSpec[t].kind \notin {"fn", "nest"}          \* a FunctionTask closure is not picklable

Transfer(kind) ==
  LET a == [a |-> "Transfer", kind |-> kind] IN
  /\ ~frozen
  /\ CASE kind \in {"pickle_copy", "pickle_orig"} ->
            /\ Picklable /\ Unchanged /\ last' = a @@ [exc |-> "none"]
       [] kind \in {"dumpload", "copy_plain", "copy_bind"} ->
            /\ reg' = {} /\ UNCHANGED <<mem, defs, kprev, frozen, ghost>> /\ last' = a @@ [exc |-> "none"]
       [] kind \in {"copy_keep", "copy_bind_keep"} ->
            LET D1 == [defs EXCEPT ![KeepLoc] = KeepExpr] IN
            /\ Acyclic(D1, {})
            /\ defs' = D1
            /\ reg' = {}
            /\ mem' = [mem EXCEPT ![KeepLoc] = Eval(KeepExpr, mem)]
            /\ ghost' = {x \in Leaf : x \in ghost \/ x \in WrittenBy(Triggered(D1, {}, KeepLoc))}
            /\ UNCHANGED <<kprev, frozen>>
            /\ last' = a @@ [exc |-> "none", keeploc |-> KeepLoc, keepexpr |-> KeepExpr]

(* gen_fun (C13): the generated setter for the argument references args, called with vals, is DEFINED as    *)
(* assigning vals[i] to args[i] one after the other; the batch formulation the code uses (write all, then   *)
(* run the union of the triggered sets once, in an allowed order) must agree with it.                       *)
RECURSIVE SeqAssign(_, _, _)
SeqAssign(s, args, vals) ==
  IF args = <<>> THEN s
  ELSE LET l  == Head(args)
           m1 == [s.m EXCEPT ![l] = Head(vals)]
           T  == Triggered(defs, reg, l)
           q  == CHOOSE o \in Allowed(defs, T) : TRUE
       IN SeqAssign(RunSeq(defs, [m |-> m1, kp |-> s.kp], q), Tail(args), Tail(vals))

GenFun(args, vals) ==
  LET n  == Len(args)
      m1 == [x \in Leaf |-> IF \E i \in 1..n : args[i] = x THEN vals[CHOOSE i \in 1..n : args[i] = x] ELSE mem[x]]
      T  == UNION {Triggered(defs, reg, args[i]) : i \in 1..n}
      q  == CHOOSE o \in Allowed(defs, T) : TRUE
      batch == RunSeq(defs, [m |-> m1, kp |-> kprev], q)
      seqr  == SeqAssign([m |-> mem, kp |-> kprev], args, vals)
  IN /\ reg = {} /\ ~frozen
     /\ \A i \in 1..n : defs[args[i]] = NoDef
     /\ Assert(batch.m = seqr.m, <<"gen_fun: batch and sequential formulations differ", args, vals>>)
     /\ mem' = seqr.m
     /\ ghost' = {x \in Leaf : x \in ghost /\ x \notin WrittenBy(T) /\ \A i \in 1..n : args[i] # x}
     /\ UNCHANGED <<defs, reg, kprev, frozen>>
     /\ last' = [a |-> "GenFun", args |-> args, vals |-> vals, exc |-> "none", trig |-> AsSeq(T), prec |-> AsSeq(Prec(defs, T)),
                 cyc |-> StructCyclic(defs, T)]

Xfer == \/ \E kind \in {"pickle_copy", "pickle_orig", "dumpload", "copy_plain", "copy_bind", "copy_keep", "copy_bind_keep"} : Transfer(kind)
        \/ \E l1 \in Leaf : \E v1 \in ValsOf[l1] : GenFun(<<l1>>, <<v1>>)
        \/ \E l1, l2 \in Leaf : \E v1 \in ValsOf[l1] : l1 # l2 /\ GenFun(<<l1, l2>>, <<v1, CHOOSE v \in ValsOf[l2] : TRUE>>)

---------------------------------------------------------------------------
Core == \/ \E l \in Leaf : \E v \in ValsOf[l] : SetValue(l, v)
        \/ \E l \in ExprTargets : \E e \in Menu : SetExpr(l, e)
        \/ \E l \in ExprTargets : \E o \in IpOps : \E x \in IpArgs : InPlace(l, o, x)

Extra == \/ \E t \in Leaf \cup TaskIds : Unregister(t)
         \/ \E t \in TaskIds : RegisterTask(t)
         \/ Freeze \/ Unfreeze
         \/ \E kind \in {"refresh", "cleanup", "verify", "clone"} : Stutter(kind)
         \/ \E sq \in LoadSeqs : \E ow \in BOOLEAN : Load(sq, ow)

Fault == \/ \E l \in Leaf : \E v \in ValsOf[l] : SetValueFault(l, v)
         \/ \E l \in ExprTargets : \E e \in Menu : SetExprFault(l, e)

(* MaxDepth bounds the number of calls in a behaviour. *)
Next == /\ depth < MaxDepth
        /\ depth' = depth + 1
        /\ \/ Core
           \/ (Extras /\ Extra)
           \/ (Faults /\ Fault)
           \/ (Transfers /\ Xfer)

Spec == Init /\ [][Next]_vars

---------------------------------------------------------------------------
(* Properties checked on the model itself.                                 *)

TypeOK == /\ mem \in [Leaf -> Int]
          /\ reg \subseteq TaskIds
          /\ frozen \in BOOLEAN
          /\ ghost \subseteq Leaf

(* ghost: the locations that may not hold the value of their definition because the task writing them was scheduled by an update that was  *)
(* cut short (or was registered without running: copy_keep) and has not run since.  The push model keeps no dirty flags: such a location    *)
(* stays stale until an update triggers its task again, whatever happens to the definitions in between.                                   *)
Dirty == {l \in ghost : defs[l] # NoDef}

(* C01: every expression-defined location holds the value of its definition on current contents *)
C01Inv == \A l \in Leaf : (defs[l] # NoDef /\ l \notin Dirty) => mem[l] = Eval(defs[l], mem)

(* the reported graph over-approximates true data flow: this is why a reverse post-order of an ACYCLIC *)
(* reported graph is an allowed order, and why only StructCyclic steps can be excused (DESIGN 3.5)    *)
ProducesReported == \A u, t \in Act(defs, reg) : Produces(defs, u, t) => Reported(defs, u, t)

(* the data-flow graph stays acyclic (guards of SetExpr / RegisterTask) *)
AcyclicInv == Acyclic(defs, reg)

(* C17: while frozen the definitions cannot change *)
C17Prop == [][frozen /\ frozen' => (defs' = defs /\ reg' = reg)]_vars
C17Refuse == [][(frozen /\ last'.a \in {"SetExpr", "Unregister", "RegisterTask"}) => (last'.exc = "ValueError" /\ State' = State)]_vars

(* C18: a fault leaves the definitions as the definitional phase made them, and marks its origin *)
C18Prop == [][last'.exc = "Fault" => (reg' = reg /\ frozen' = frozen /\ ghost \subseteq ghost')]_vars

(* C02: the triggered set is closed under reported edges, contains every direct dependant, nothing else *)
C02Prop == [][("trig" \in DOMAIN last' /\ "l" \in DOMAIN last') =>
               LET T == {last'.trig[i] : i \in 1..Len(last'.trig)} IN
               /\ \A t \in T : t \in Act(defs', reg')
               /\ \A u \in T : \A t \in Act(defs', reg') : Reported(defs', u, t) => t \in T
               /\ \A t \in Act(defs', reg') : TDeps(defs', t) \cap Chain(last'.l) # {} => t \in T]_vars

(* Frozen episodes (C17: "after unfreeze_tree() the manager behaves as if it had never been frozen").  In a state   *)
(* where re-assigning its current value to an undefined leaf l re-runs the triggered tasks to the same contents,  *)
(* the three calls  freeze_tree(); l = <current value>; unfreeze_tree()  compose to the identity on State.  The   *)
(* harness inserts such episodes into the replayed paths; EpSafe says where the specification guarantees that.   *)
RECURSIVE Topo(_, _)
Topo(D, T) == IF T = {} THEN <<>>          \* one allowed order (true data flow is acyclic: AcyclicInv); all agree (Update asserts confluence)
              ELSE LET t == CHOOSE x \in T : \A u \in T : u # x => ~Produces(D, u, x) IN <<t>> \o Topo(D, T \ {t})
EpSafe == IF ~Episodes \/ TLCGet("config").mode # "bfs" \/ frozen \/ ghost # {} THEN {}
          ELSE {l \in Leaf : /\ defs[l] = NoDef
                             /\ LET T == Triggered(defs, reg, l) IN
                                /\ ~StructCyclic(defs, T)
                                /\ RunSeq(defs, [m |-> mem, kp |-> kprev], IF HasNest(T) THEN CHOOSE q \in FlatOrders(defs, reg, T) : TRUE ELSE Topo(defs, T))
                                     = [m |-> mem, kp |-> kprev]}

(* emission for the conformance harness: every generated transition, source and target state in full *)
(* (EpSafe is only needed for states that are the source of an emitted transition, i.e. not for the last layer)    *)
Emit == PrintT(ToJson(<<"TR", State, last', State', IF depth' < MaxDepth THEN AsSeq(EpSafe') ELSE <<>> >>))
=============================================================================
