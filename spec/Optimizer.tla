------------------------------ MODULE Optimizer ------------------------------
(***************************************************************************)
(* xdeps.Optimize as a protocol over ABSTRACT points (C09, C10, C15).      *)
(*                                                                         *)
(* TLC has no reals, so the state holds no numbers: a knob vector is an     *)
(* interned point id, a penalty is its rank among the penalties of the     *)
(* log, a step is its size relative to max_step in parts per million.      *)
(* These integers are measured by an oracle that is independent of the     *)
(* optimizer (it re-evaluates the user function at the knob values found   *)
(* in the containers / in the log rows); what the optimizer DID with them  *)
(* is decided here.                                                        *)
(*                                                                         *)
(* State:  cur   point the containers hold                                 *)
(*         vact, tact   active knobs / targets (sets of indices)           *)
(*         log   sequence of rows                                          *)
(*   row = [pt, va, ta, kind in {"tag","jac","reload"}, pen (rank),        *)
(*          tol (all active targets of the row within tolerance at pt),    *)
(*          inlim (knobs inside their closed limits at pt),                *)
(*          same (knobs bit-identical to the previous row),                *)
(*          ratio (per knob |change from previous row| / max_step, ppm),   *)
(*          penok / tarok (logged penalty / targets reproduced by an       *)
(*          independent evaluation at pt under the row's masks)]           *)
(*                                                                         *)
(* One action per public call (optimize.py): Step 945-1087, Solve          *)
(* 1089-1122, Reload 1377-1402, Tag 1440-1450, Enable/Disable 1452-1496,   *)
(* ClearLog 1404-1411.  Every clause of the three properties is a NAMED    *)
(* predicate over (state before, observed call, state after); the trace    *)
(* specification at the end consumes recorded calls and collects the names *)
(* of the clauses each call violates, so a verdict always says which       *)
(* clause failed and the rest of the trace is still examined.              *)
(***************************************************************************)
EXTENDS Integers, Sequences, FiniteSets, TLC, Json, IOUtils

PPM == 1000000
Slack == 20                      \* ppm: rounding of the weight scaling / of the measured ratio itself

Knobs(n)  == 1..n
SeqSet(s) == {s[i] : i \in 1..Len(s)}
Last(s)   == s[Len(s)]
MinPen(rows) == CHOOSE m \in {rows[i].pen : i \in 1..Len(rows)} : \A i \in 1..Len(rows) : m <= rows[i].pen

(* how a call may end: normally, or with the exceptions the contract names (no point within tolerance: RuntimeError; a limit / *)
(* penalty blow-up: ValueError; nothing left to vary: AssertionError; the user's action raising: InjectedFault).  Anything else  *)
(* (TypeError, AttributeError, KeyError, IndexError ...) means the call itself is broken.                                      *)
Outcomes == {"ok", "RuntimeError", "ValueError", "AssertionError", "InjectedFault", "LinAlgError"}

(* "the same knob values": bit-exact for unit weights, within the rounding of the weight scaling (x = knob / weight) otherwise *)
Near(c, u) == u <= (IF c.unit_weights THEN 0 ELSE 4)

(* ---- Step: st = state before, c = the call (args, observed rows, outcome), af = state after ------------------------- *)
(* flags in force during the call: the persistent ones with the temporary arguments applied *)
EffV(st, c) == (st.vact \cup SeqSet(c.en_v)) \ SeqSet(c.dis_v)
EffT(st, c) == (st.tact \cup SeqSet(c.en_t)) \ SeqSet(c.dis_t)
JacRows(c)  == {i \in 1..Len(c.rows) : c.rows[i].kind = "jac"}

StepClauses(st, c, af, nk) ==
  LET rows == c.rows  n == Len(rows)  ok == c.out = "ok" IN
  {<<"C15.step-logs-its-starting-point", (ok \/ n >= 1) => (n >= 1 /\ rows[1].kind = "tag" /\ Near(c, c.first_row_ulp))>>,
   <<"C10.rows-carry-the-flags-in-force", \A i \in 1..n : rows[i].kind = "reload" \/ (SeqSet(rows[i].va) = EffV(st, c) /\ SeqSet(rows[i].ta) = EffT(st, c))>>,
   <<"C10.at-most-n-steps", Cardinality(JacRows(c)) <= c.n>>,
   <<"C10.accepted-points-within-limits", c.start_inlim => \A i \in 1..n : SeqSet(rows[i].inlim) = Knobs(nk)>>,   \* "starting inside the limits"
   <<"C10.step-bounded-by-max_step", \A i \in JacRows(c) : \A k \in Knobs(nk) : rows[i].ratio[k] <= PPM + Slack>>,
   <<"C10.disabled-knob-unchanged", \A i \in JacRows(c) : \A k \in Knobs(nk) : k \notin EffV(st, c) => k \in SeqSet(rows[i].same)>>,
   <<"C10.temporarily-disabled-are-active-again-on-return",
       ok => /\ SeqSet(c.dis_v) \subseteq af.vact /\ SeqSet(c.dis_t) \subseteq af.tact
             /\ \A k \in Knobs(nk) : k \notin SeqSet(c.dis_v) \cup SeqSet(c.en_v) => (k \in af.vact <=> k \in st.vact)
             /\ \A t \in (st.tact \cup af.tact) : t \notin SeqSet(c.dis_t) \cup SeqSet(c.en_t) => (t \in af.tact <=> t \in st.tact)>>,
   <<"C15.containers-hold-the-last-logged-point", ok => (n >= 1 /\ Near(c, c.last_row_ulp))>>,
   <<"C15.take_best-ends-within-tolerance-or-on-the-minimum", (ok /\ c.take_best /\ n >= 1) => (Last(rows).tol \/ Last(rows).pen = MinPen(rows))>>,
   <<"C15.logged-rows-are-reproducible", \A i \in 1..n : rows[i].penok /\ rows[i].tarok>>,
   <<"C15.log-grows-by-the-observed-rows", ok => af.loglen = st.loglen + n>>,
   <<"C15.log-still-readable", c.log_ok>>,
   <<"C10.disabled-target-has-no-influence", c.twin_same>>,
   <<"C10.call-accepts-its-documented-arguments", c.out \in Outcomes>>}

(* ---- Solve = Step + the contract of C09 ---------------------------------------------------------------------------- *)
SolveClauses(st, c, af, nk) ==
  LET ok == c.out = "ok" IN
  {x \in StepClauses(st, c, af, nk) : c.out = "ok" \/ x[1] \in {"C10.accepted-points-within-limits", "C10.step-bounded-by-max_step",
                                                                 "C10.disabled-knob-unchanged", "C15.logged-rows-are-reproducible"}}
  \cup
  {<<"C09.normal-return-means-matched", ok => (Len(c.rows) >= 1 /\ Last(c.rows).tol /\ c.oracle_tol)>>,
   <<"C09.failure-restores-iteration-0-knobs", (~ok /\ c.restore) => Near(c, c.restored_ulp)>>,
   <<"C09.failure-restores-iteration-0-flags", (~ok /\ c.restore) => (af.vact = SeqSet(c.row0.va) /\ af.tact = SeqSet(c.row0.ta))>>,
   <<"C15.log-still-readable", c.log_ok>>}

(* ---- Reload(i) -------------------------------------------------------------------------------------------------------- *)
ReloadClauses(st, c, af, nk) ==
  {<<"C15.reload-puts-the-row's-knobs-back", c.out = "ok" => Near(c, c.reload_ulp)>>,
   <<"C15.reload-puts-the-row's-flags-back", c.out = "ok" => (af.vact = SeqSet(c.row.va) /\ af.tact = SeqSet(c.row.ta))>>,
   <<"C15.reload-reproduces-the-row's-penalty-and-targets", c.out = "ok" => (c.pen_same /\ c.tar_same)>>,
   <<"C15.reload-logs-the-point", c.out = "ok" => (af.loglen = st.loglen + 1 /\ Len(c.rows) = 1 /\ Near(c, c.last_row_ulp))>>,
   <<"C15.logged-rows-are-reproducible", \A i \in 1..Len(c.rows) : c.rows[i].penok /\ c.rows[i].tarok>>,
   <<"C15.log-still-readable", c.log_ok>>,
   <<"C10.call-accepts-its-documented-arguments",
       c.out \in Outcomes \cup {"ValueError"} \cup (IF st.loglen = 0 THEN {"IndexError"} ELSE {})>>}     \* no row to reload: a clear_log() cut short by the action left the log empty

TagClauses(st, c, af, nk) ==
  {<<"C15.tag-logs-the-current-point", c.out = "ok" => (af.loglen = st.loglen + 1 /\ Len(c.rows) = 1 /\ Near(c, c.first_row_ulp) /\ Near(c, c.moved_ulp)
                                                      /\ SeqSet(c.rows[1].va) = st.vact /\ SeqSet(c.rows[1].ta) = st.tact)>>,
   <<"C15.logged-rows-are-reproducible", \A i \in 1..Len(c.rows) : c.rows[i].penok /\ c.rows[i].tarok>>,
   <<"C10.flags-unchanged", af.vact = st.vact /\ af.tact = st.tact>>}

(* enable / disable: c.v, c.t are the index sets the arguments denote (resolved independently of the optimizer) *)
FlagClauses(st, c, af, nk) ==
  LET on == c.ev = "Enable" IN
  {<<"C10.enable-disable-set-exactly-the-named-flags",
     /\ af.vact = (IF on THEN st.vact \cup SeqSet(c.v) ELSE st.vact \ SeqSet(c.v))
     /\ af.tact = (IF on THEN st.tact \cup SeqSet(c.t) ELSE st.tact \ SeqSet(c.t))>>,
   <<"C10.enable-disable-move-nothing", c.moved_ulp = 0 /\ af.loglen = st.loglen>>}

ClearClauses(st, c, af, nk) ==
  {<<"C15.clear_log-restarts-the-log-at-the-current-point", c.out = "ok" => (af.loglen = 1 /\ Len(c.rows) = 1 /\ Near(c, c.first_row_ulp) /\ Near(c, c.moved_ulp))>>,
   <<"C10.flags-unchanged", af.vact = st.vact /\ af.tact = st.tact>>}

Clauses(st, c, af, nk) ==
  CASE c.ev = "Step"  -> StepClauses(st, c, af, nk)
    [] c.ev = "Solve" -> SolveClauses(st, c, af, nk)
    [] c.ev = "Reload" -> ReloadClauses(st, c, af, nk)
    [] c.ev = "Tag" -> TagClauses(st, c, af, nk)
    [] c.ev \in {"Enable", "Disable"} -> FlagClauses(st, c, af, nk)
    [] c.ev = "ClearLog" -> ClearClauses(st, c, af, nk)
    [] c.ev = "Retarget" -> {<<"C10.flags-unchanged", af.vact = st.vact /\ af.tact = st.tact>>}     \* the harness changed a target value: the optimizer was not called

Violated(st, c, af, nk) == {x[1] : x \in {y \in Clauses(st, c, af, nk) : ~y[2]}}

---------------------------------------------------------------------------
(* Trace specification: many recorded traces per run (tid), one event per step.                                         *)
(* A trace is [nk, init: state, events: sequence of calls each carrying the observed state after the call (af)].       *)
Traces == JsonDeserialize(IOEnv.TRACE_FILE)

VARIABLES tid, l, st, bad
tvars == <<tid, l, st, bad>>

AbsState(j) == [cur |-> j.cur, vact |-> SeqSet(j.vact), tact |-> SeqSet(j.tact), loglen |-> j.loglen]

TraceInit == /\ tid \in 1..Len(Traces)
             /\ l = 1
             /\ st = AbsState(Traces[tid].init)
             /\ bad = {}

TraceNext == /\ l <= Len(Traces[tid].events)
             /\ LET c == Traces[tid].events[l]
                    af == AbsState(c.af)
                    v == Violated(st, c, af, Traces[tid].nk) IN
                /\ bad' = bad \cup {<<l, x>> : x \in v}
                /\ st' = af                       \* continue from what was observed: the rest of the trace is still examined
                /\ l' = l + 1
                /\ UNCHANGED tid
                /\ (l' > Len(Traces[tid].events) => PrintT(<<"VERDICT", tid, Len(Traces[tid].events), bad'>>))

TraceSpec == TraceInit /\ [][TraceNext]_tvars

(* every trace is consumed to its end (acceptance); the verdict lines carry the violated clauses *)
Consumed == TLCGet("stats").diameter >= 1
=============================================================================
