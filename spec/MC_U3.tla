------------------------------- MODULE MC_U3 -------------------------------
(* Universe U3: flat a, b, c, d: chains, diamonds, consumer-before-producer, function task and linear knob. *)
EXTENDS Integers, Sequences, FiniteSets, TLC, Json
CONSTANTS Faults, Extras, Transfers, MaxDepth, EmitIdx, Episodes
VARIABLES mem, defs, reg, kprev, frozen, ghost, last, depth

LeafSeq == <<"a", "b", "c", "d">>
cLeaf == {"a", "b", "c", "d"}
cLoc  == cLeaf \cup {"f:total"}
cPar  == [x \in cLoc |-> "/"]
cValsOf == [x \in cLeaf |-> {7, -1}]
cInitMem == [x \in cLeaf |-> CASE x = "a" -> 1 [] x = "b" -> 2 [] x = "c" -> 3 [] x = "d" -> 4]

R(x) == [k |-> "ref", l |-> x]
L(v) == [k |-> "lit", v |-> v]
B(o, a, b) == [k |-> "bin", op |-> o, a |-> a, b |-> b]

cMenu == {R(p) : p \in cLeaf}
   \cup {B("+", R(LeafSeq[i]), R(LeafSeq[j])) : <<i, j>> \in {<<1, 2>>, <<1, 3>>, <<2, 3>>, <<2, 4>>, <<3, 4>>, <<1, 4>>}}
   \cup {B("*", R(p), L(2)) : p \in cLeaf}
   \cup {B("-", L(10), R(p)) : p \in {"a", "c"}}
   \cup {[k |-> "neg", a |-> R(p)] : p \in {"b", "d"}}
   \cup {B("*", B("+", R("a"), R("b")), R("c")), B("+", B("*", R("b"), L(2)), B("*", R("c"), L(3)))}
   \cup {[k |-> "rnd", a |-> B("*", R("a"), L(5)), p |-> R("b")]}
   \cup {B("*", R("a"), L(-1)), B("*", R("a"), L(-2))}      \* two definitions that differ only in literals of equal Python hash (hash(-1) = hash(-2)): a redefinition must still replace

cTaskSpec == [t \in {"F1", "K1", "O1"} |->
   IF t = "O1" THEN [kind |-> "obs", deps |-> {"a"}, targets |-> {}]
   ELSE IF t = "F1" THEN [kind |-> "fn", deps |-> {"a", "b"}, targets |-> {"d"}, out |-> "d", ins |-> <<"a", "b">>]
   ELSE [kind |-> "knob", src |-> "a", deps |-> {"a"}, targets |-> {"b", "c"}, tl |-> <<"b", "c">>, w |-> <<2, 3>>]]

INSTANCE Manager WITH KeepLoc <- "d", KeepExpr <- B("+", R("a"), L(1)), Loc <- cLoc, Leaf <- cLeaf, Par <- cPar, ValsOf <- cValsOf, InitMem <- cInitMem,
   Menu <- cMenu, ExprTargets <- cLeaf, TaskSpec <- cTaskSpec, IpOps <- {"+", "*", "-"}, IpArgs <- {3}

ASSUME PrintT(ToJson(<<"INIT", <<cInitMem, [x \in cLeaf |-> NoDef], {}, [t \in DOMAIN cTaskSpec |-> 0], FALSE, {}>>>>))
ASSUME PrintT(ToJson(<<"META", cTaskSpec>>))
=============================================================================
