------------------------------ MODULE Toposort ------------------------------
(***************************************************************************)
(* xdeps/sorting.py toposort / _dfs, transcribed statement by statement    *)
(* (an explicit stack of (vertex, position in its neighbour list), a       *)
(* visited set, vertices prepended to the result when their neighbour list *)
(* is exhausted), started from EVERY graph with ordered neighbour lists    *)
(* over N vertices and every start sequence.                               *)
(*                                                                         *)
(* TLC checks on the transcription the lemma C02 rests on: for an acyclic  *)
(* graph the result lists exactly the vertices reachable from the start    *)
(* vertices, each once, every vertex before all its neighbours (= a task   *)
(* before every task downstream of it); for any graph: no duplicates,      *)
(* exactly the reachable set, and termination within the step bound.       *)
(* Every finished run is printed (graph, start, result) and the harness    *)
(* compares the real toposort() on the same input - cyclic graphs          *)
(* included, where the order is whatever this algorithm yields (the        *)
(* recorded struct-cycle finding lives there).                             *)
(***************************************************************************)
EXTENDS Integers, Sequences, FiniteSets, TLC, Json

CONSTANTS N,          \* vertices 1..N
          Sorted      \* TRUE: neighbour lists only in increasing / decreasing order (for the larger N)
V == 1..N

VARIABLES g, start, si, todo, visited, out, done
vars == <<g, start, si, todo, visited, out, done>>

RECURSIVE Perms(_)
Perms(S) == IF S = {} THEN {<<>>} ELSE UNION {{<<x>> \o p : p \in Perms(S \ {x})} : x \in S}
RECURSIVE Asc(_)
Asc(S) == IF S = {} THEN <<>> ELSE LET m == CHOOSE x \in S : \A y \in S : x <= y IN <<m>> \o Asc(S \ {m})
Rev(s) == [i \in 1..Len(s) |-> s[Len(s) + 1 - i]]
Lists == IF Sorted THEN UNION {{Asc(S), Rev(Asc(S))} : S \in SUBSET V}
         ELSE UNION {Perms(S) : S \in SUBSET V}
Starts == IF Sorted THEN {<<v>> : v \in V} \cup {Asc(V), Rev(Asc(V))} ELSE Lists \ {<<>>}

Init == /\ g \in [V -> Lists] /\ start \in Starts
        /\ si = 1 /\ todo = <<>> /\ visited = {} /\ out = <<>> /\ done = FALSE

Last(s) == s[Len(s)]
ButLast(s) == SubSeq(s, 1, Len(s) - 1)

(* for vertex in start: if vertex not in visited: _dfs(...) *)
NextStart == /\ ~done /\ todo = <<>> /\ si <= Len(start)
             /\ si' = si + 1
             /\ IF start[si] \in visited THEN UNCHANGED <<todo, visited>>
                ELSE /\ visited' = visited \cup {start[si]} /\ todo' = <<<<start[si], 1>>>>
             /\ UNCHANGED <<g, start, out, done>>

(* one turn of `while todo:` *)
Step == /\ ~done /\ todo # <<>>
        /\ LET v  == Last(todo)[1]
               i  == Last(todo)[2]
               nb == g[v]
               fresh == {j \in i..Len(nb) : nb[j] \notin visited}
           IN IF fresh # {}
              THEN LET j == CHOOSE x \in fresh : \A y \in fresh : x <= y IN       \* the for loop stops at the first unvisited neighbour
                   /\ visited' = visited \cup {nb[j]}
                   /\ todo' = Append(Append(ButLast(todo), <<v, j + 1>>), <<nb[j], 1>>)
                   /\ UNCHANGED out
              ELSE /\ todo' = ButLast(todo) /\ out' = <<v>> \o out /\ UNCHANGED visited      \* else: pop, appendleft
        /\ UNCHANGED <<g, start, si, done>>

Finish == /\ ~done /\ todo = <<>> /\ si > Len(start)
          /\ done' = TRUE /\ UNCHANGED <<g, start, si, todo, visited, out>>
          /\ PrintT(ToJson(<<"SORT", g, start, out>>))

Next == NextStart \/ Step \/ Finish
Spec == Init /\ [][Next]_vars /\ WF_vars(Next)

---------------------------------------------------------------------------
Edge(u, w) == \E j \in 1..Len(g[u]) : g[u][j] = w
RECURSIVE ReachFrom(_, _)
ReachFrom(S, n) == IF n = 0 THEN S ELSE ReachFrom(S \cup {w \in V : \E u \in S : Edge(u, w)}, n - 1)
Reach == ReachFrom({start[i] : i \in 1..Len(start)}, N)
Acyclic == ~\E v \in V : v \in ReachFrom({w \in V : Edge(v, w)}, N)
Pos(v) == CHOOSE i \in 1..Len(out) : out[i] = v

NoDuplicates == \A i, j \in 1..Len(out) : i # j => out[i] # out[j]
ExactlyReachable == done => {out[i] : i \in 1..Len(out)} = Reach
Topological == (done /\ Acyclic) => \A u, w \in Reach : Edge(u, w) => Pos(u) < Pos(w)
Terminates == <>done
=============================================================================
