--------------------------- MODULE OptimizerModel ---------------------------
(***************************************************************************)
(* xdeps.Optimize: the PROTOCOL of step / solve / reload / tag / enable /  *)
(* disable / clear_log, with an abstract solver and an abstract user       *)
(* action, explored exhaustively by TLC (design level; the code is bound   *)
(* by the trace specification in Optimizer.tla).                           *)
(*                                                                         *)
(* Knob vectors are the four points of a 2 x 2 grid; the environment gives *)
(* for every point and target a distance class (0 = within tolerance) and  *)
(* says which points lie inside the limits.  The solver is any function    *)
(* respecting its contract: it only proposes points inside the limits and  *)
(* never moves a knob that is not active.  The user's action may raise at  *)
(* any evaluation (Fault budget).  The public calls are transcribed in the *)
(* order optimize.py performs their effects (temporary flags applied       *)
(* before the starting point is logged and undone only on the normal path; *)
(* knobs written before a point is evaluated; a row appended only after    *)
(* the evaluation succeeded; solve() = step + verdict + restore on any     *)
(* exception), one micro-step per evaluation so that every crash point is  *)
(* a state.                                                                *)
(***************************************************************************)
EXTENDS Integers, Sequences, FiniteSets, TLC

CONSTANTS MaxCalls,     \* public calls per behaviour
          MaxFaults,    \* evaluations of the user's action that may raise
          Scenarios,    \* names of the environments explored
          Restore       \* restore_if_fail

K == {1, 2}
T == {1, 2}
Points == [K -> 0..1]
P(a, b) == [k \in K |-> IF k = 1 THEN a ELSE b]

(* distance class of target t at point p, per scenario *)
TPen(sc, p, t) ==
  CASE sc = "converges"  -> IF p = P(1, 1) THEN 0 ELSE IF p[t] = 1 THEN 1 ELSE 2
    [] sc = "inconsistent" -> IF t = 1 THEN (IF p[1] = 1 THEN 0 ELSE 2) ELSE (IF p[1] = 0 THEN 0 ELSE 1)     \* the two targets want opposite things
    [] sc = "matched-start" -> IF p = P(0, 0) THEN 0 ELSE 1
    [] sc = "nonmonotone" -> IF p = P(0, 0) THEN 1 ELSE IF p = P(1, 1) THEN 0 ELSE 2                          \* every first move makes things worse
InLim(sc, p) == IF sc = "inconsistent" THEN p # P(1, 1) ELSE TRUE

VARIABLES sc, cur, vact, tact, log, pc, ctx, faults, calls, ret
vars == <<sc, cur, vact, tact, log, pc, ctx, faults, calls, ret>>

Pen(p, ta)  == LET S(t) == IF t \in ta THEN TPen(sc, p, t) ELSE 0 IN S(1) + S(2)
Tol(p, ta)  == \A t \in ta : TPen(sc, p, t) = 0
Row(p)      == [pt |-> p, va |-> vact, ta |-> tact, pen |-> Pen(p, tact),
                 sin |-> ctx.call = "step" /\ InLim(sc, ctx.pre.cur)]     \* logged by a step()/solve() that started inside the limits
NoCtx       == [call |-> "none"]
Last(s)     == s[Len(s)]
Idle        == pc = "idle"

Init == /\ sc \in Scenarios
        /\ cur = P(0, 0) /\ vact = K /\ tact = T
        /\ log = <<[pt |-> P(0, 0), va |-> K, ta |-> T, pen |-> TPen(sc, P(0, 0), 1) + TPen(sc, P(0, 0), 2), sin |-> FALSE]>>    \* the constructor logs the start
        /\ pc = "idle" /\ ctx = NoCtx /\ faults = 0 /\ calls = 0
        /\ ret = [call |-> "none", out |-> "ok"]

(* an evaluation of the user's action either succeeds or raises (budgeted) *)
MayRaise == faults < MaxFaults

Return(out) == /\ pc' = "idle" /\ ret' = (ctx @@ [out |-> out]) /\ ctx' = NoCtx

(* ---- entering a public call ------------------------------------------------------------------------------------------ *)
Begin(c) == /\ Idle /\ calls < MaxCalls /\ calls' = calls + 1
            /\ ctx' = c @@ [pre |-> [cur |-> cur, vact |-> vact, tact |-> tact, loglen |-> Len(log)], first |-> Len(log) + 1, left |-> 0, instep |-> FALSE]
            /\ UNCHANGED <<sc, cur, log, faults, ret>>

CallStep(n, tb, dv, dt) == /\ Begin([call |-> "step", n |-> n, tb |-> tb, dv |-> dv, dt |-> dt, solve |-> FALSE])
                           /\ vact' = vact \ dv /\ tact' = tact \ dt          \* temporary flags applied first
                           /\ pc' = "tag"
CallSolve == /\ Begin([call |-> "step", n |-> 2, tb |-> TRUE, dv |-> {}, dt |-> {}, solve |-> TRUE])
             /\ UNCHANGED <<vact, tact>> /\ pc' = "tag"
CallReload(i) == /\ i \in 1..Len(log)
                 /\ Begin([call |-> "reload", i |-> i, solve |-> FALSE])
                 /\ cur' = log[i].pt /\ vact' = log[i].va /\ tact' = log[i].ta     \* knobs and flags are put back BEFORE the point is evaluated
                 /\ pc' = "reload_eval"
                 /\ UNCHANGED <<sc, log, faults, ret>>
CallTag == /\ Begin([call |-> "tag", solve |-> FALSE]) /\ UNCHANGED <<vact, tact>> /\ pc' = "tag_eval"
CallFlags(on, v, t) == /\ Idle /\ calls < MaxCalls /\ calls' = calls + 1
                       /\ vact' = IF on THEN vact \cup v ELSE vact \ v
                       /\ tact' = IF on THEN tact \cup t ELSE tact \ t
                       /\ ret' = [call |-> "flags", out |-> "ok", pre |-> [cur |-> cur, vact |-> vact, tact |-> tact, loglen |-> Len(log)]]
                       /\ UNCHANGED <<sc, cur, log, pc, ctx, faults>>
CallClear == /\ Begin([call |-> "clear", solve |-> FALSE]) /\ UNCHANGED <<vact, tact>> /\ pc' = "clear_eval"

(* ---- failing: an exception leaves the call; solve() catches it, restores iteration 0 and re-raises -------------------- *)
FailAt(exc, c) ==
  IF ctx.solve /\ Restore /\ Len(log) >= 1 /\ pc # "restore_eval"
  THEN /\ cur' = log[1].pt /\ vact' = log[1].va /\ tact' = log[1].ta
       /\ pc' = "restore_eval" /\ ctx' = [ctx EXCEPT !.call = "solve-failed"] @@ [exc |-> exc]
       /\ UNCHANGED <<log, ret>>
  ELSE /\ Return(exc) /\ cur' = c /\ UNCHANGED <<vact, tact, log>>
Fail(exc) == FailAt(exc, cur)

(* ---- step: log the starting point ------------------------------------------------------------------------------------- *)
Tag == /\ pc = "tag"
       /\ \/ /\ log' = Append(log, Row(cur)) /\ pc' = "iter" /\ ctx' = [ctx EXCEPT !.left = ctx.n]
             /\ UNCHANGED <<cur, vact, tact, faults, ret>>
          \/ /\ MayRaise /\ faults' = faults + 1 /\ Fail("InjectedFault")
       /\ UNCHANGED <<sc, calls>> /\ (faults' = faults \/ faults' = faults + 1)

(* one solver step: evaluations at probe / trial points write the knobs; an accepted point is logged *)
Iter == /\ pc = "iter"
        /\ IF ctx.left = 0 \/ Tol(cur, tact) THEN /\ pc' = "best" /\ UNCHANGED <<cur, vact, tact, log, ctx, faults, ret>>
           ELSE \E q \in Points :
                  /\ \A k \in K \ vact : q[k] = cur[k]                          \* the solver contract: inactive knobs are not moved
                  /\ \/ /\ InLim(sc, q)                                            \* ... accepted points lie inside the limits
                        /\ cur' = q /\ log' = Append(log, Row(q)) /\ ctx' = [ctx EXCEPT !.left = ctx.left - 1]
                        /\ pc' = "iter" /\ UNCHANGED <<vact, tact, faults, ret>>
                     \/ /\ MayRaise /\ faults' = faults + 1                        \* the action raises at a probe / trial point: the knobs stay there
                        /\ FailAt("InjectedFault", q)
        /\ UNCHANGED <<sc, calls>>

(* take_best: not within tolerance -> go back to the minimum-penalty row of this call (reload logs the point again) *)
Best == /\ pc = "best"
        /\ LET rows == SubSeq(log, ctx.first, Len(log))
               m == CHOOSE x \in {rows[i].pen : i \in 1..Len(rows)} : \A i \in 1..Len(rows) : x <= rows[i].pen
               ib == CHOOSE i \in 1..Len(rows) : rows[i].pen = m /\ \A j \in 1..(i - 1) : rows[j].pen # m          \* numpy argmin: the first minimum
           IN IF ctx.tb /\ ~Tol(cur, tact) /\ ib # Len(rows)
              THEN /\ cur' = rows[ib].pt /\ vact' = rows[ib].va /\ tact' = rows[ib].ta
                   /\ pc' = "best_eval" /\ UNCHANGED <<log, ctx, faults, ret>>
              ELSE /\ pc' = "undo" /\ UNCHANGED <<cur, vact, tact, log, ctx, faults, ret>>
        /\ UNCHANGED <<sc, calls>>
BestEval == /\ pc = "best_eval"
            /\ \/ /\ log' = Append(log, Row(cur)) /\ pc' = "undo" /\ UNCHANGED <<cur, vact, tact, ctx, faults, ret>>
               \/ /\ MayRaise /\ faults' = faults + 1 /\ Fail("InjectedFault")
            /\ UNCHANGED <<sc, calls>>

(* the normal end of step(): temporary flags undone; solve() then gives its verdict *)
Undo == /\ pc = "undo"
        /\ LET va == vact \cup ctx.dv  ta == tact \cup ctx.dt IN
           IF ctx.solve /\ ~Tol(cur, ta)
           THEN /\ vact' = va /\ tact' = ta /\ pc' = "verdict" /\ UNCHANGED <<cur, log, ctx, faults, ret>>
           ELSE /\ vact' = va /\ tact' = ta /\ Return("ok") /\ UNCHANGED <<cur, log, faults>>
        /\ UNCHANGED <<sc, calls>>
Verdict == /\ pc = "verdict" /\ Fail("RuntimeError") /\ UNCHANGED <<sc, calls, faults>>

(* reload(0) inside the failing solve: the point is evaluated and logged; if that raises too, that exception propagates *)
RestoreEval == /\ pc = "restore_eval"
               /\ \/ /\ log' = Append(log, Row(cur)) /\ Return(ctx.exc) /\ UNCHANGED <<cur, vact, tact, faults>>
                  \/ /\ MayRaise /\ faults' = faults + 1 /\ Return("InjectedFault") /\ UNCHANGED <<cur, vact, tact, log>>
               /\ UNCHANGED <<sc, calls>>

ReloadEval == /\ pc = "reload_eval"
              /\ \/ /\ log' = Append(log, Row(cur)) /\ Return("ok") /\ UNCHANGED <<cur, vact, tact, faults>>
                 \/ /\ MayRaise /\ faults' = faults + 1 /\ Return("InjectedFault") /\ UNCHANGED <<cur, vact, tact, log>>
              /\ UNCHANGED <<sc, calls>>
TagEval == /\ pc = "tag_eval"
           /\ \/ /\ log' = Append(log, Row(cur)) /\ Return("ok") /\ UNCHANGED <<cur, vact, tact, faults>>
              \/ /\ MayRaise /\ faults' = faults + 1 /\ Return("InjectedFault") /\ UNCHANGED <<cur, vact, tact, log>>
           /\ UNCHANGED <<sc, calls>>
ClearEval == /\ pc = "clear_eval"
             /\ \/ /\ log' = <<Row(cur)>> /\ Return("ok") /\ UNCHANGED <<cur, vact, tact, faults>>
                \/ /\ MayRaise /\ faults' = faults + 1 /\ log' = <<>> /\ Return("InjectedFault") /\ UNCHANGED <<cur, vact, tact>>   \* cleared, nothing logged
             /\ UNCHANGED <<sc, calls>>

Next == \/ \E n \in {1, 2} : \E tb \in BOOLEAN : \E dv \in {{}, {1}} : \E dt \in {{}, {2}} : CallStep(n, tb, dv, dt)
        \/ CallSolve \/ CallTag \/ CallClear
        \/ \E i \in 1..3 : CallReload(i)
        \/ \E on \in BOOLEAN : \E v \in {{}, {1}} : \E t \in {{}, {2}} : (v \cup t # {}) /\ CallFlags(on, v, t)
        \/ Tag \/ Iter \/ Best \/ BestEval \/ Undo \/ Verdict \/ RestoreEval \/ ReloadEval \/ TagEval \/ ClearEval

Spec == Init /\ [][Next]_vars

---------------------------------------------------------------------------
(* the properties, evaluated when a call has just returned (ret describes it) *)
Done(c) == Idle /\ ret.call = c
IsSolve == Idle /\ ret.call \in {"step", "solve-failed"} /\ "solve" \in DOMAIN ret /\ ret.solve

(* C09 *)
C09_ok      == (IsSolve /\ ret.out = "ok") => Tol(cur, tact)
C09_restore == (IsSolve /\ ret.out # "ok" /\ Restore /\ ret.pre.loglen >= 1 /\ Len(log) >= 1) =>
                  (cur = log[1].pt /\ vact = log[1].va /\ tact = log[1].ta)
(* C10 *)
C10_inlim   == \A i \in 1..Len(log) : log[i].sin => InLim(sc, log[i].pt)
C10_flags   == (Done("step") /\ ret.out = "ok" /\ ~ret.solve) =>
                  /\ ret.dv \subseteq vact /\ ret.dt \subseteq tact
                  /\ \A k \in K \ ret.dv : (k \in vact <=> k \in ret.pre.vact)
                  /\ \A t \in T \ ret.dt : (t \in tact <=> t \in ret.pre.tact)
C10_fixed   == \A i \in 2..Len(log) : \A k \in K : (k \notin log[i].va /\ log[i].va = log[i - 1].va /\ log[i].pt[k] # log[i - 1].pt[k]) => FALSE
(* C15 *)
C15_best    == (Done("step") /\ ret.out = "ok" /\ ret.tb) =>
                  LET rows == SubSeq(log, ret.first, Len(log)) IN     \* penalties as logged: under the flags of this call
                  /\ Last(rows).pt = cur
                  /\ \A i \in 1..Len(rows) : Last(rows).pen <= rows[i].pen
C15_reload  == (Done("reload") /\ ret.out = "ok") => (cur = log[ret.i].pt /\ vact = log[ret.i].va /\ tact = log[ret.i].ta /\ Last(log).pt = cur)
C15_last    == (Idle /\ ret.out = "ok" /\ ret.call \in {"step", "reload", "tag", "clear"}) => (Len(log) >= 1 /\ Last(log).pt = cur)
=============================================================================
