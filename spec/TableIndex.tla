----------------------------- MODULE TableIndex -----------------------------
(***************************************************************************)
(* xdeps.Table: rows addressed by name (C07).                              *)
(*                                                                         *)
(* Reference state (history-free): the index column idx, one data column   *)
(* val, and whether an extra column "w" exists.  Row resolution is the     *)
(* operator Resolve: a scan of the CURRENT index column.                   *)
(*                                                                         *)
(* `cache' is implementation-shaped on purpose (table.py 258-296 builds    *)
(* the name->row dictionary lazily and keeps it): it is not part of the    *)
(* reference semantics, it exists so that TLC can show (cfg V0 = TRUE,     *)
(* the invalidation rule of the pinned code transcribed literally) which   *)
(* interleavings of lookups and updates make a kept cache stale, and so    *)
(* that the replayed behaviours contain those interleavings (Probe).       *)
(***************************************************************************)
EXTENDS Integers, Sequences, FiniteSets, TLC, Json

CONSTANTS Names,      \* names that may occur in the index column
          Absent,     \* a name that never occurs
          MaxLen,     \* rows 0..MaxLen
          MaxDepth,
          QSel,       \* "all" | "few": how many row designations the by-name cell assignments range over
          Inval       \* cache invalidation rule: "ref" = on every write into the index column (reference),
                      \* "pinned" = only on whole-column assignment (the pinned code, transcribed: fidelity witness),
                      \* "never" = keep the last probed snapshot for ever (used when emitting behaviours, so that
                      \* two paths that differ in what was looked up before an update stay different paths)

VARIABLES idx, val, extra, hasidx, cache, last, depth
vars  == <<idx, val, extra, hasidx, cache, last, depth>>
State == <<idx, val, extra, hasidx>>
How   == IF "form" \in DOMAIN last THEN <<last.a, last.form>> ELSE <<last.a>>     \* the call AND the way its row / column was spelled
Node  == <<idx, val, extra, hasidx, cache, How>>                 \* identity of a node of the emitted graph: how a state was
                                                        \* reached matters to a history-dependent implementation
View  == <<idx, val, extra, hasidx, cache, How, depth>>

NoCount == 99                     \* "no ::count given"
KeyError == -100
None == <<"none">>

Occ(s, n) == SelectSeq([i \in 1..Len(s) |-> i], LAMBDA i : s[i] = n)     \* increasing positions (1-based) holding n

(* position (0-based) of the c-th occurrence of n (negative c from the last one) shifted by o, or KeyError *)
Resolve(s, n, c, o) ==
  LET occ == Occ(s, n)
      cc  == IF c = NoCount THEN 0 ELSE IF c < 0 THEN c + Len(occ) ELSE c
  IN IF cc >= 0 /\ cc < Len(occ) THEN occ[cc + 1] - 1 + o ELSE KeyError

(* the unique label of row i (1-based): the bare name if it occurs once, else name::rank *)
Rank(s, i) == Cardinality({j \in 1..(i - 1) : s[j] = s[i]})
Label(s, i) == IF Len(Occ(s, s[i])) = 1 THEN <<s[i], NoCount>> ELSE <<s[i], Rank(s, i)>>

Counts  == {NoCount, 0, 1, 2, -1, -2, -3}
Offsets == {0, 1, -1, 2}
Queries == (Names \cup {Absent}) \X Counts \X Offsets

(* what every lookup form must answer in state s; offsets landing outside the table are not demanded (Skip) *)
Skip == -200
Answer(s, q) == LET r == Resolve(s, q[1], q[2], 0)
                IN IF r = KeyError THEN KeyError
                   ELSE IF r + q[3] >= 0 /\ r + q[3] < Len(s) THEN r + q[3] ELSE Skip
Table(s)  == [q \in Queries |-> Answer(s, q)]
Labels(s) == [i \in 1..Len(s) |-> Label(s, i)]

Cols(n) == IF n = 0 THEN {<<>>} ELSE [1..n -> Names]

Init == /\ \E n \in 0..MaxLen : idx \in Cols(n)
        /\ val = [i \in 1..Len(idx) |-> 10 * i]
        /\ extra = FALSE
        /\ hasidx = TRUE
        /\ cache = None
        /\ last = [a |-> "Init"]
        /\ depth = 0
        /\ PrintT(ToJson(<<"ROOT", Node>>))

Touch(whole) == CASE Inval = "ref" -> None                 \* cache after a write into the index column
                  [] Inval = "pinned" -> IF whole THEN None ELSE cache
                  [] Inval = "never" -> cache

(* t['name'] = column   /   t.name = column *)
SetCol(form, s) == /\ Len(idx) > 0 /\ s \in Cols(Len(idx)) /\ s # idx
                   /\ idx' = s /\ cache' = Touch(TRUE)
                   /\ UNCHANGED <<val, extra, hasidx>>
                   /\ last' = [a |-> "SetCol", form |-> form, s |-> s]

(* t['name', i] = n, the row given as a position, a negative position, a one-row slice i:i+1, a one-element list, a boolean mask *)
CellForms == {"pos", "neg", "slice", "list", "mask"}
SetCell(form, i, n) == /\ i \in 1..Len(idx) /\ n # idx[i]
                 /\ idx' = [idx EXCEPT ![i] = n] /\ cache' = Touch(FALSE)
                 /\ UNCHANGED <<val, extra, hasidx>>
                 /\ last' = [a |-> "SetCell", form |-> form, i |-> i - 1, n |-> n]

(* t['name', 'a::1'] = n  or  t['name', ('a', 1)] = n : the row is resolved first *)
SetCellByRow(form, q, n) ==
  LET r == Answer(idx, q) IN
  /\ r # Skip
  /\ IF r = KeyError
     THEN /\ UNCHANGED <<idx, val, extra, hasidx>> /\ cache' = cache
          /\ last' = [a |-> "SetCellByRow", form |-> form, q |-> q, n |-> n, exc |-> "KeyError"]
     ELSE /\ idx' = [idx EXCEPT ![r + 1] = n] /\ cache' = (IF idx' = idx THEN cache ELSE Touch(FALSE))
          /\ UNCHANGED <<val, extra, hasidx>>
          /\ last' = [a |-> "SetCellByRow", form |-> form, q |-> q, n |-> n, exc |-> "none"]

(* t['v', row] = x *)
SetVal(form, q, x) ==
  LET r == Answer(idx, q) IN
  /\ r \notin {Skip, KeyError}
  /\ val' = [val EXCEPT ![r + 1] = x]
  /\ UNCHANGED <<idx, extra, hasidx, cache>>
  /\ last' = [a |-> "SetVal", form |-> form, q |-> q, x |-> x, exc |-> "none"]

AddCol == /\ ~extra /\ extra' = TRUE /\ UNCHANGED <<idx, val, hasidx, cache>> /\ last' = [a |-> "AddCol"]
DelCol(form) == /\ extra /\ extra' = FALSE /\ UNCHANGED <<idx, val, hasidx, cache>> /\ last' = [a |-> "DelCol", form |-> form]

(* del t['name'] / t.pop('name'): the index column itself is removed; nothing is demanded of name lookups until  *)
(* an index column exists again.  t['name'] = column / t.name = column then creates it as a NEW column, and the  *)
(* lookups must resolve against it (a cache kept from the old column is stale: Touch).                          *)
DelIndex(form) == /\ hasidx /\ Len(idx) > 0
                  /\ hasidx' = FALSE /\ idx' = <<>> /\ cache' = cache
                  /\ UNCHANGED <<val, extra>>
                  /\ last' = [a |-> "DelIndex", form |-> form]
AddIndex(form, s) == /\ ~hasidx /\ s \in Cols(Len(val))
                     /\ hasidx' = TRUE /\ idx' = s /\ cache' = Touch(TRUE)
                     /\ UNCHANGED <<val, extra>>
                     /\ last' = [a |-> "AddIndex", form |-> form, s |-> s]

(* perform every lookup form now (this is what builds the implementation's cache) *)
Probe == /\ cache' = idx /\ UNCHANGED <<idx, val, extra, hasidx>> /\ last' = [a |-> "Probe"]

SmallQ == IF QSel = "few" THEN {<<"a", NoCount, 0>>, <<"b", 0 - 1, 0>>, <<"a", 1, 1>>}
          ELSE {q \in Queries : q[2] \in {NoCount, 1, -1} /\ q[3] \in {0, 1}}

Live == \/ \E f \in {"item", "attr"} : \E s \in Cols(Len(idx)) : SetCol(f, s)
        \/ \E f \in CellForms : \E i \in 1..Len(idx) : \E n \in Names : SetCell(f, i, n)
        \/ \E f \in {"str", "tuple"} : \E q \in SmallQ : \E n \in Names : SetCellByRow(f, q, n)
        \/ \E f \in {"str", "tuple"} : \E q \in {qq \in SmallQ : qq[2] # 1} : SetVal(f, q, 7)
        \/ AddCol \/ \E f \in {"del", "pop"} : DelCol(f)
        \/ \E f \in {"del", "pop"} : DelIndex(f)
        \/ Probe

Next == /\ depth < MaxDepth
        /\ depth' = depth + 1
        /\ \/ (~hasidx /\ \E f \in {"item", "attr"} : \E s \in Cols(Len(val)) : AddIndex(f, s))
           \/ (~hasidx /\ (AddCol \/ \E f \in {"del", "pop"} : DelCol(f)))
           \/ (hasidx /\ Live)

Spec == Init /\ [][Next]_vars

(* C07 at design level: a kept cache always describes the current index column *)
CacheCoherent == cache = None \/ ~hasidx \/ cache = idx
(* labels resolve back to their own row *)
LabelsResolve == \A i \in 1..Len(idx) : Resolve(idx, Label(idx, i)[1], Label(idx, i)[2], 0) = i - 1
TypeOK == /\ (hasidx => Len(idx) = Len(val)) /\ Len(val) <= MaxLen /\ extra \in BOOLEAN

Emit == PrintT(ToJson(<<"TR", Node, last', Node',
                        IF last'.a = "Probe" THEN {<<q, Answer(idx', q)>> : q \in Queries} ELSE {},
                        IF last'.a = "Probe" THEN Labels(idx') ELSE <<>>>>))
=============================================================================
