------------------------------- MODULE MC_U8 -------------------------------
(* Universe U8: a LINEAR KNOB with memory next to pickling.  Three flat locations a, b, c; the knob K1 (source a, targets b and c with weights 2, 3)  *)
(* keeps the source value it saw last (kprev).  After an update of a that was cut short before the knob ran, kprev LAGS behind the source; a pickle    *)
(* round trip in that state must carry kprev over as it is (a copy that samples the source afresh applies a different delta at the next update).       *)
EXTENDS Integers, Sequences, FiniteSets, TLC, Json
CONSTANTS Faults, Extras, Transfers, MaxDepth, EmitIdx, Episodes
VARIABLES mem, defs, reg, kprev, frozen, ghost, last, depth

LeafSeq == <<"a", "b", "c">>
cLeaf == {LeafSeq[i] : i \in 1..Len(LeafSeq)}
cLoc  == cLeaf \cup {"f:total"}
cPar  == [l \in cLoc |-> "/"]
cValsOf == [l \in cLeaf |-> IF l = "a" THEN {7, 5} ELSE {7}]
cInitMem == [l \in cLeaf |-> CASE l = "a" -> 1 [] l = "b" -> 2 [] l = "c" -> 3]

R(l) == [k |-> "ref", l |-> l]
L(v) == [k |-> "lit", v |-> v]
B(o, a, b) == [k |-> "bin", op |-> o, a |-> a, b |-> b]

cMenu == {B("*", R("a"), L(2)), B("+", R("b"), L(1)), B("-", L(10), R("c"))}

cTaskSpec == [t \in {"K1", "O1"} |->
   IF t = "O1" THEN [kind |-> "obs", deps |-> {"a"}, targets |-> {}]
   ELSE [kind |-> "knob", src |-> "a", deps |-> {"a"}, targets |-> {"b", "c"}, tl |-> <<"b", "c">>, w |-> <<2, 3>>]]

INSTANCE Manager WITH KeepLoc <- "c", KeepExpr <- B("*", R("a"), L(2)), Loc <- cLoc, Leaf <- cLeaf, Par <- cPar, ValsOf <- cValsOf, InitMem <- cInitMem,
   Menu <- cMenu, ExprTargets <- {"c"}, TaskSpec <- cTaskSpec, IpOps <- {}, IpArgs <- {}

ASSUME PrintT(ToJson(<<"INIT", <<cInitMem, [l \in cLeaf |-> NoDef], {}, [t \in DOMAIN cTaskSpec |-> 0], FALSE, {}>>>>))
ASSUME PrintT(ToJson(<<"META", cTaskSpec>>))
=============================================================================
