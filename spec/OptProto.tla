------------------------------ MODULE OptProto ------------------------------
(***************************************************************************)
(* xdeps.Optimize: the PROTOCOL of step / solve / reload / tag / enable /  *)
(* disable / clear_log over an abstract solver and a user action that may  *)
(* raise at every evaluation.                                              *)
(*                                                                         *)
(* One source, two uses:                                                   *)
(*  - MC_OptProto.tla instantiates Env with four small scenarios and TLC   *)
(*    explores every behaviour (every crash point is a state) against the  *)
(*    invariants C09_* / C10_* / C15_* below;                              *)
(*  - OptProtoTrace.tla instantiates Env with the environments MEASURED by *)
(*    the harness oracle in real sessions and checks that every recorded   *)
(*    call of the real Optimize object is a behaviour of these actions.    *)
(*                                                                         *)
(* The public calls are transcribed in the order optimize.py performs      *)
(* their effects, one micro-step per evaluation of the merit function:     *)
(*   step():  temporary flags applied; starting point evaluated + logged;  *)
(*            n_steps times: solver step (evaluate here; if within         *)
(*            tolerance stay, else probe / trial points, accept one),      *)
(*            knobs written, row logged, stop when within tolerance;       *)
(*            take_best: reload the minimum-penalty row of this call;      *)
(*            temporary flags undone (normal path only).                   *)
(*   solve(): step(n_steps_max, take_best) + verdict; on ANY exception     *)
(*            reload(0) when restore_if_fail, then re-raise.               *)
(*   reload(i): knobs and flags of row i written, point evaluated + logged.*)
(*   evaluation: an ACTIVE knob outside its limits -> ValueError before    *)
(*            the action runs; else the action may raise; a row is logged  *)
(*            only after the evaluation succeeded.                         *)
(* The solver contract: it never writes a knob that is not active and      *)
(* accepts only points whose active knobs are inside their limits.         *)
(***************************************************************************)
EXTENDS Integers, Sequences, FiniteSets, TLC

CONSTANTS Env,          \* [scenario -> [nk, nt, npts, nep, coord, inlimk, tolt[epoch], pen[epoch], nmax, restore, start]]
          MaxCalls,     \* public calls per behaviour (design exploration)
          MaxFaults,    \* evaluations of the user's action that may raise
          SolverExc     \* exception classes the solver itself may raise in a step

Scenarios == DOMAIN Env

VARIABLES sc, ep, cur, vact, tact, log, pc, ctx, faults, calls, ret
vars == <<sc, ep, cur, vact, tact, log, pc, ctx, faults, calls, ret>>

E        == Env[sc]
K        == 1..E.nk
T        == 1..E.nt
Points   == 1..E.npts
Coord(p, k) == E.coord[p][k]
Mask(ta) == LET RECURSIVE M(_)
                M(S) == IF S = {} THEN 0 ELSE LET t == CHOOSE x \in S : TRUE IN 2 ^ (t - 1) + M(S \ {t})
            IN M(ta)
Pen(p, ta)  == E.pen[ep][p][Mask(ta) + 1]                      \* order-preserving rank of the penalty of point p over the targets ta
Tol(p, ta)  == ta \subseteq E.tolt[ep][p]                       \* every active target within its tolerance
LimErr(p, va) == ~(va \subseteq E.inlimk[p])               \* an active knob outside its limits: the evaluation refuses
AllIn(p)    == E.inlimk[p] = K

Last(s)  == s[Len(s)]
NoCtx    == [call |-> "none"]
Idle     == pc = "idle"
Row(p, kind) == [pt |-> p, va |-> vact, ta |-> tact, pen |-> Pen(p, tact), kind |-> kind,     \* kind: "point" (evaluated where the knobs were) | "solver"
                 sin |-> ctx.call = "step" /\ AllIn(ctx.pre.cur)]     \* logged by a step()/solve() that started inside the limits

Init == /\ sc \in Scenarios /\ ep = 1
        /\ cur = Env[sc].start /\ vact = 1..Env[sc].nk /\ tact = 1..Env[sc].nt
        /\ log = <<[pt |-> Env[sc].start, va |-> 1..Env[sc].nk, ta |-> 1..Env[sc].nt,
                    pen |-> Env[sc].pen[1][Env[sc].start][2 ^ Env[sc].nt], kind |-> "point", sin |-> FALSE]>>       \* the constructor logs the start
        /\ pc = "idle" /\ ctx = NoCtx /\ faults = 0 /\ calls = 0
        /\ ret = [call |-> "none", out |-> "ok", solve |-> FALSE]

(* ---- an evaluation of the merit function at the current knobs ------------------------------------------------------------ *)
EvalOuts(p, va) == IF LimErr(p, va) THEN {"ValueError"}
                   ELSE {"ok"} \cup (IF faults < MaxFaults THEN {"InjectedFault"} ELSE {})
Count(o) == faults' = IF o = "InjectedFault" THEN faults + 1 ELSE faults

Return(out) == /\ pc' = "idle" /\ ret' = (ctx @@ [out |-> out]) /\ ctx' = NoCtx

(* ---- entering a public call ---------------------------------------------------------------------------------------------- *)
Begin(c) == /\ Idle /\ calls < MaxCalls /\ calls' = calls + 1
            /\ ctx' = c @@ [pre |-> [cur |-> cur, vact |-> vact, tact |-> tact, loglen |-> Len(log)], first |-> Len(log) + 1, left |-> 0]
            /\ UNCHANGED <<sc, ep, log, faults, ret>>

CallStep(n, tb, ev, dv, dt, et) ==
    /\ Begin([call |-> "step", n |-> n, tb |-> tb, ev |-> ev, dv |-> dv, dt |-> dt, et |-> et, solve |-> FALSE])
    /\ vact' = (vact \cup ev) \ dv /\ tact' = (tact \cup et) \ dt     \* temporary flags applied first: the enabling arguments, then the disabling ones
    /\ pc' = "tag" /\ UNCHANGED cur
CallSolve ==
    /\ Begin([call |-> "step", n |-> E.nmax, tb |-> TRUE, ev |-> {}, dv |-> {}, dt |-> {}, et |-> {}, solve |-> TRUE])
    /\ UNCHANGED <<cur, vact, tact>> /\ pc' = "tag"
CallReload(i) ==
    /\ i \in 1..Len(log)
    /\ Begin([call |-> "reload", i |-> i, solve |-> FALSE])
    /\ cur' = log[i].pt /\ vact' = log[i].va /\ tact' = log[i].ta     \* knobs and flags are put back BEFORE the point is evaluated
    /\ pc' = "reload_eval"
CallReloadMissing(exc) ==                                              \* no such row / tag: refused, nothing changes
    /\ Idle /\ calls < MaxCalls /\ calls' = calls + 1
    /\ ret' = [call |-> "reload-missing", out |-> exc, solve |-> FALSE]
    /\ UNCHANGED <<sc, ep, cur, vact, tact, log, pc, ctx, faults>>
CallRetarget ==                                                        \* the user changes the job (target values / tolerances): epoch + 1
    /\ Idle /\ calls < MaxCalls /\ calls' = calls + 1 /\ ep < E.nep /\ ep' = ep + 1
    /\ ret' = [call |-> "retarget", out |-> "ok", solve |-> FALSE]
    /\ UNCHANGED <<sc, cur, vact, tact, log, pc, ctx, faults>>
CallTag   == /\ Begin([call |-> "tag", solve |-> FALSE]) /\ UNCHANGED <<cur, vact, tact>> /\ pc' = "tag_eval"
CallClear == /\ Begin([call |-> "clear", solve |-> FALSE]) /\ UNCHANGED <<cur, vact, tact>> /\ pc' = "clear_eval"
CallFlags(on, v, t) ==
    /\ Idle /\ calls < MaxCalls /\ calls' = calls + 1
    /\ vact' = IF on THEN vact \cup v ELSE vact \ v
    /\ tact' = IF on THEN tact \cup t ELSE tact \ t
    /\ ret' = [call |-> "flags", out |-> "ok", solve |-> FALSE, pre |-> [cur |-> cur, vact |-> vact, tact |-> tact, loglen |-> Len(log)]]
    /\ UNCHANGED <<sc, ep, cur, log, pc, ctx, faults>>

(* ---- an exception leaves the call; solve() catches it, restores iteration 0 and re-raises ------------------------------- *)
FailAt(exc, c) ==
  IF ctx.solve /\ E.restore /\ pc # "restore_eval"
  THEN IF Len(log) = 0
       THEN /\ Return("AssertionError") /\ cur' = c /\ UNCHANGED <<vact, tact, log>>      \* reload(0) of an empty log refuses
       ELSE /\ cur' = log[1].pt /\ vact' = log[1].va /\ tact' = log[1].ta
            /\ pc' = "restore_eval" /\ ctx' = [ctx EXCEPT !.call = "solve-failed"] @@ [exc |-> exc]
            /\ UNCHANGED <<log, ret>>
  ELSE /\ Return(exc) /\ cur' = c /\ UNCHANGED <<vact, tact, log>>
Fail(exc) == FailAt(exc, cur)

(* ---- step: log the starting point ------------------------------------------------------------------------------------------ *)
Tag == /\ pc = "tag"
       /\ \E o \in EvalOuts(cur, vact) :
            /\ Count(o)
            /\ IF o = "ok" THEN /\ log' = Append(log, Row(cur, "point")) /\ pc' = "iter" /\ ctx' = [ctx EXCEPT !.left = ctx.n]
                                /\ UNCHANGED <<cur, vact, tact, ret>>
                           ELSE Fail(o)
       /\ UNCHANGED <<sc, ep, calls>>

(* the points the solver may write while the flags are va: knobs that are not active keep their value *)
Reach(p, va) == {q \in Points : \A k \in K \ va : Coord(q, k) = Coord(p, k)}

(* one solver step + the row logged for it *)
IterStop == /\ pc = "iter" /\ ctx.left = 0 /\ pc' = "best"
            /\ UNCHANGED <<sc, ep, cur, vact, tact, log, ctx, faults, calls, ret>>
IterFirstFail(o) ==                                                    \* the evaluation of the current point fails
    /\ pc = "iter" /\ ctx.left > 0 /\ o \in EvalOuts(cur, vact) \ {"ok"}
    /\ Count(o) /\ Fail(o) /\ UNCHANGED <<sc, ep, calls>>
IterStay ==                                                            \* already within tolerance: no move, the row is logged, the loop ends
    /\ pc = "iter" /\ ctx.left > 0 /\ "ok" \in EvalOuts(cur, vact) /\ Tol(cur, tact)
    /\ log' = Append(log, Row(cur, "solver")) /\ pc' = "best"
    /\ UNCHANGED <<sc, ep, cur, vact, tact, ctx, faults, calls, ret>>
IterAccept(q) ==                                                       \* probes, trials, one accepted point
    /\ pc = "iter" /\ ctx.left > 0 /\ "ok" \in EvalOuts(cur, vact) /\ ~Tol(cur, tact)
    /\ vact # {}
    /\ q \in Reach(cur, vact) /\ ~LimErr(q, vact)
    /\ cur' = q /\ log' = Append(log, Row(q, "solver")) /\ ctx' = [ctx EXCEPT !.left = ctx.left - 1]
    /\ pc' = IF Tol(q, tact) THEN "best" ELSE "iter"
    /\ UNCHANGED <<sc, ep, vact, tact, faults, calls, ret>>
IterRaise(q, exc) ==                                                   \* the action raises at a probe / trial point (the knobs stay there), or the solver gives up
    /\ pc = "iter" /\ ctx.left > 0 /\ "ok" \in EvalOuts(cur, vact) /\ ~Tol(cur, tact)
    /\ q \in Reach(cur, vact)
    /\ \/ exc = "InjectedFault" /\ faults < MaxFaults /\ faults' = faults + 1
       \/ exc \in SolverExc /\ faults' = faults
    /\ FailAt(exc, q) /\ UNCHANGED <<sc, ep, calls>>

(* take_best: not within tolerance -> back to a minimum-penalty row of this call (reload logs the point again) *)
MinRows == LET rows == SubSeq(log, ctx.first, Len(log)) IN
           {i \in 1..Len(rows) : \A j \in 1..Len(rows) : rows[i].pen <= rows[j].pen}
Best(ib) == /\ pc = "best"
            /\ LET rows == SubSeq(log, ctx.first, Len(log)) IN
               IF ctx.tb /\ ~Tol(cur, tact)
               THEN /\ ib \in MinRows
                    /\ IF ib # Len(rows)
                       THEN /\ cur' = rows[ib].pt /\ vact' = rows[ib].va /\ tact' = rows[ib].ta
                            /\ pc' = "best_eval" /\ UNCHANGED <<log, ctx, faults, ret>>
                       ELSE /\ pc' = "undo" /\ UNCHANGED <<cur, vact, tact, log, ctx, faults, ret>>
               ELSE /\ ib = 0 /\ pc' = "undo" /\ UNCHANGED <<cur, vact, tact, log, ctx, faults, ret>>
            /\ UNCHANGED <<sc, ep, calls>>
EvalThen(at, next) ==                                                  \* evaluate + log the current point, then go on / return
    /\ pc = at
    /\ \E o \in EvalOuts(cur, vact) :
         /\ Count(o)
         /\ IF o = "ok" THEN /\ log' = Append(log, Row(cur, "point")) /\ UNCHANGED <<cur, vact, tact>>
                             /\ IF next = "return" THEN Return("ok") ELSE pc' = next /\ UNCHANGED <<ctx, ret>>
                        ELSE IF next = "return" THEN Return(o) /\ UNCHANGED <<cur, vact, tact, log>> ELSE Fail(o)
    /\ UNCHANGED <<sc, ep, calls>>
BestEval   == EvalThen("best_eval", "undo")
ReloadEval == EvalThen("reload_eval", "return")
TagEval    == EvalThen("tag_eval", "return")

(* the normal end of step(): temporary flags undone; solve() then gives its verdict *)
Undo == /\ pc = "undo"
        \* optimize.py undoes the enabling arguments first and the disabling ones last: a knob / target named by both ends ACTIVE
        \* (found by the long histories: a first transcription, (vact \cup dv) \ ev, rejected step(enable_vary=[0], disable_vary_name='k0'))
        /\ LET va == (vact \ ctx.ev) \cup ctx.dv   ta == (tact \ ctx.et) \cup ctx.dt IN
           /\ vact' = va /\ tact' = ta
           /\ IF ctx.solve /\ ~Tol(cur, ta)
              THEN /\ pc' = "verdict" /\ UNCHANGED <<cur, log, ctx, faults, ret>>
              ELSE /\ Return("ok") /\ UNCHANGED <<cur, log, faults>>
        /\ UNCHANGED <<sc, ep, calls>>
Verdict == /\ pc = "verdict" /\ Fail("RuntimeError") /\ UNCHANGED <<sc, ep, calls, faults>>

(* reload(0) inside the failing solve: evaluated and logged; if that fails too, that exception propagates *)
RestoreEval == /\ pc = "restore_eval"
               /\ \E o \in EvalOuts(cur, vact) :
                    /\ Count(o)
                    /\ IF o = "ok" THEN /\ log' = Append(log, Row(cur, "point")) /\ Return(ctx.exc) /\ UNCHANGED <<cur, vact, tact>>
                                   ELSE /\ Return(o) /\ UNCHANGED <<cur, vact, tact, log>>
               /\ UNCHANGED <<sc, ep, calls>>
ClearEval == /\ pc = "clear_eval"
             /\ \E o \in EvalOuts(cur, vact) :
                  /\ Count(o)
                  /\ IF o = "ok" THEN /\ log' = <<Row(cur, "point")>> /\ Return("ok")
                                 ELSE /\ log' = <<>> /\ Return(o)                     \* cleared, nothing logged
                  /\ UNCHANGED <<cur, vact, tact>>
             /\ UNCHANGED <<sc, ep, calls>>

Micro == \/ Tag \/ IterStop \/ IterStay
         \/ \E o \in {"ValueError", "InjectedFault"} : IterFirstFail(o)
         \/ \E q \in Points : IterAccept(q)
         \/ \E q \in Points : \E exc \in {"InjectedFault"} \cup SolverExc : IterRaise(q, exc)
         \/ \E ib \in 0..Len(log) : Best(ib)
         \/ BestEval \/ Undo \/ Verdict \/ RestoreEval \/ ReloadEval \/ TagEval \/ ClearEval

Sub(S) == {{}} \cup {{x} : x \in S}
Calls == \/ \E n \in {1, 2} : \E tb \in BOOLEAN : \E dv \in Sub({1}) : \E dt \in Sub({2}) : \E ev \in Sub({2}) : (ev = {} \/ dv = {}) /\ CallStep(n, tb, ev, dv, dt, {})
         \/ CallSolve \/ CallTag \/ CallClear \/ CallRetarget
         \/ \E i \in 1..3 : CallReload(i)
         \/ (Len(log) = 0 /\ CallReloadMissing("IndexError"))
         \/ \E on \in BOOLEAN : \E v \in Sub({1}) : \E t \in Sub({2}) : (v \cup t # {}) /\ CallFlags(on, v, t)
Next == Calls \/ Micro
Spec == Init /\ [][Next]_vars
(* liveness of the protocol itself: with the micro-steps weakly fair, every public call returns (normally or with an exception) *)
FairSpec == Spec /\ WF_vars(Micro)
Returns  == (pc # "idle") ~> (pc = "idle")

---------------------------------------------------------------------------
(* the properties, evaluated when a call has just returned (ret describes it) *)
Done(c) == Idle /\ ret.call = c
IsSolve == Idle /\ ret.call \in {"step", "solve-failed"} /\ ret.solve

(* C09: solve() returns normally only within tolerance; a failing solve() with restore_if_fail leaves iteration 0 *)
C09_ok      == (IsSolve /\ ret.out = "ok") => Tol(cur, tact)
C09_restore == (IsSolve /\ ret.out # "ok" /\ E.restore /\ ret.pre.loglen >= 1 /\ Len(log) >= 1) =>
                  (cur = log[1].pt /\ vact = log[1].va /\ tact = log[1].ta)
(* C10: limits, temporary flags, knobs that are not active *)
C10_inlim   == \A i \in 1..Len(log) : log[i].sin => AllIn(log[i].pt)
C10_flags   == (Done("step") /\ ret.out = "ok" /\ ~ret.solve) =>
                  /\ ret.dv \subseteq vact /\ ret.dt \subseteq tact /\ ret.ev \cap vact = {}
                  /\ \A k \in K \ (ret.dv \cup ret.ev) : (k \in vact <=> k \in ret.pre.vact)
                  /\ \A t \in T \ ret.dt : (t \in tact <=> t \in ret.pre.tact)
C10_fixed   == (Idle /\ ret.call \in {"step", "solve-failed"}) =>
                  \A i \in (ret.first + 1)..Len(log) : \A k \in K :
                      (log[i].kind = "solver" /\ k \notin log[i].va) => Coord(log[i].pt, k) = Coord(log[i - 1].pt, k)
(* C15: take_best, reload, the last row is the current point *)
C15_best    == (Done("step") /\ ret.out = "ok" /\ ret.tb) =>
                  LET rows == SubSeq(log, ret.first, Len(log)) IN     \* penalties as logged: under the flags of this call
                  /\ Last(rows).pt = cur
                  /\ Tol(cur, Last(rows).ta) \/ \A i \in 1..Len(rows) : Last(rows).pen <= rows[i].pen
C15_reload  == (Done("reload") /\ ret.out = "ok") => (cur = log[ret.i].pt /\ vact = log[ret.i].va /\ tact = log[ret.i].ta /\ Last(log).pt = cur)
C15_last    == (Idle /\ ret.out = "ok" /\ ret.call \in {"step", "reload", "tag", "clear"}) => (Len(log) >= 1 /\ Last(log).pt = cur)
=============================================================================
