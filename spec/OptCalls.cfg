INIT Init
NEXT Next
CONSTANTS
  MaxLen = 3
  Menu <- FullMenu
INVARIANT Emit
