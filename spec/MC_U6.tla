------------------------------- MODULE MC_U6 -------------------------------
(* Universe U6: five flat locations and a menu of sums over every pair: long random histories (TLC -simulate, emitted as WALKS: one line  *)
(* per visited state, replayed along the walk itself), in which definitions are narrowed, widened, removed and the direction of the data *)
(* flow between two locations is reversed many times.                                                                                  *)
EXTENDS Integers, Sequences, FiniteSets, TLC, Json
CONSTANTS Faults, Extras, Transfers, MaxDepth, EmitIdx, Episodes
VARIABLES mem, defs, reg, kprev, frozen, ghost, last, depth

LeafSeq == <<"a", "b", "c", "d", "x">>
cLeaf == {LeafSeq[i] : i \in 1..Len(LeafSeq)}
cLoc  == cLeaf \cup {"f:total"}
cPar  == [l \in cLoc |-> "/"]
cValsOf == [l \in cLeaf |-> {7, 0 - 2}]
cInitMem == [l \in cLeaf |-> CASE l = "a" -> 1 [] l = "b" -> 2 [] l = "c" -> 3 [] l = "d" -> 5 [] l = "x" -> 8]

R(l) == [k |-> "ref", l |-> l]
L(v) == [k |-> "lit", v |-> v]
B(o, a, b) == [k |-> "bin", op |-> o, a |-> a, b |-> b]

Ord(l) == CHOOSE i \in 1..Len(LeafSeq) : LeafSeq[i] = l
cMenu == {B("+", B("*", R(w[1]), L(2)), R(w[2])) : w \in {p \in cLeaf \X cLeaf : Ord(p[1]) < Ord(p[2])}}
         \cup {B("*", R(u), L(3)) : u \in cLeaf}

cTaskSpec == [t \in {"O1"} |-> [kind |-> "obs", deps |-> {"a"}, targets |-> {}]]

cIpOps == {"+"}
cIpArgs == {3}

INSTANCE Manager WITH KeepLoc <- "b", KeepExpr <- B("*", R("a"), L(3)), Loc <- cLoc, Leaf <- cLeaf, Par <- cPar, ValsOf <- cValsOf, InitMem <- cInitMem,
   Menu <- cMenu, ExprTargets <- cLeaf \ {"a"}, TaskSpec <- cTaskSpec, IpOps <- cIpOps, IpArgs <- cIpArgs

ASSUME PrintT(ToJson(<<"INIT", <<cInitMem, [l \in cLeaf |-> NoDef], {}, [t \in DOMAIN cTaskSpec |-> 0], FALSE, {}>>>>))
ASSUME PrintT(ToJson(<<"META", cTaskSpec>>))
=============================================================================
