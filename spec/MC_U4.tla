------------------------------- MODULE MC_U4 -------------------------------
(* Universe U4: the locations of U1 with a SMALL menu, explored deep (4-5 calls): count-sensitive histories  *)
(* (two tasks sharing a dependency and an enclosing target, removal of one of them after a transfer).      *)
(* Bound to Python by harness/bind.py: "a" -> s['a'], "n.x" -> s['n']['x'], "f:total" -> f.total         *)
EXTENDS Integers, Sequences, FiniteSets, TLC, Json
CONSTANTS Faults, Extras, Transfers, MaxDepth, EmitIdx, Episodes
VARIABLES mem, defs, reg, kprev, frozen, ghost, last, depth

LeafSeq == <<"a", "b", "n.x", "n.y">>
cLeaf == {LeafSeq[i] : i \in 1..Len(LeafSeq)}
cLoc  == cLeaf \cup {"n", "f:total"}
cPar  == [l \in cLoc |-> IF l \in {"n.x", "n.y"} THEN "n" ELSE "/"]
cValsOf == [l \in cLeaf |-> {7}]
cInitMem == [l \in cLeaf |-> CASE l = "a" -> 1 [] l = "b" -> 2 [] l = "n.x" -> 3 [] l = "n.y" -> 4]

R(l) == [k |-> "ref", l |-> l]
L(v) == [k |-> "lit", v |-> v]
B(o, a, b) == [k |-> "bin", op |-> o, a |-> a, b |-> b]

cMenu == {B("*", R("a"), L(2)), B("+", R("a"), L(1)), B("+", R("n.x"), R("n.y")), R("n.x"), [k |-> "tot", c |-> "n"]}

cTaskSpec == [t \in {"F1", "K1", "O1"} |->
   IF t = "O1" THEN [kind |-> "obs", deps |-> {"a"}, targets |-> {}]
   ELSE IF t = "F1" THEN [kind |-> "fn", deps |-> {"a", "n.x"}, targets |-> {"b"}, out |-> "b", ins |-> <<"a", "n.x">>]
   ELSE [kind |-> "knob", src |-> "a", deps |-> {"a"}, targets |-> {"b", "n.y"}, tl |-> <<"b", "n.y">>, w |-> <<2, 3>>]]

cIpOps == {"+"}
cIpArgs == {3}

INSTANCE Manager WITH KeepLoc <- "b", KeepExpr <- B("+", R("a"), L(1)), Loc <- cLoc, Leaf <- cLeaf, Par <- cPar, ValsOf <- cValsOf, InitMem <- cInitMem,
   Menu <- cMenu, ExprTargets <- cLeaf, TaskSpec <- cTaskSpec, IpOps <- cIpOps, IpArgs <- cIpArgs

ASSUME PrintT(ToJson(<<"INIT", <<cInitMem, [l \in cLeaf |-> NoDef], {}, [t \in DOMAIN cTaskSpec |-> 0], FALSE, {}>>>>))
ASSUME PrintT(ToJson(<<"META", cTaskSpec>>))
=============================================================================
