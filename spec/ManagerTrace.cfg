INIT Init
NEXT Next
INVARIANT Consumed
