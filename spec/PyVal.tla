------------------------------- MODULE PyVal -------------------------------
(***************************************************************************)
(* Python numeric values and what PYTHON does with them, as far as TLC's   *)
(* integers can say it exactly.                                            *)
(*                                                                         *)
(* A number is [t, n, d]: t in {"int","bool","float"}, value n/d with d a  *)
(* power of two (dyadic rationals: IEEE arithmetic on small ones is        *)
(* exact).  Besides numbers there are                                      *)
(*    NaN              float('nan')                                        *)
(*    Raise(e)         evaluating raises exception class e                 *)
(*    Tup(a, b)        a 2-tuple (divmod)                                  *)
(*    Opaque           "whatever CPython computes for this operator on     *)
(*                     these operand values in this order": the result is  *)
(*                     not a small dyadic (1/3, sqrt, overflow of the      *)
(*                     bounds below, NaN arithmetic).  The harness then    *)
(*                     takes the value from CPython on the mirrored term;  *)
(*                     operand ORDER, operator and guard still come from   *)
(*                     the specification.                                  *)
(*                                                                         *)
(* Nothing here is trusted blindly: every run that uses this module first  *)
(* compares the operator tables TLC emits (SelfCheck) with CPython; a      *)
(* disagreement is a machinery failure (exit 2), never a violation.        *)
(***************************************************************************)
EXTENDS Integers, Sequences, FiniteSets, TLC

Bound == 1000000            \* |numerator| beyond this, or denominators beyond 2^12: Opaque
DBound == 4096

NaN       == [t |-> "nan"]
Opaque    == [t |-> "opaque"]
Raise(e)  == [t |-> "raise", e |-> e]
Tup(a, b) == [t |-> "tuple", a |-> a, b |-> b]

ZDE == Raise("ZeroDivisionError")
TE  == Raise("TypeError")
VE  == Raise("ValueError")

IsNum(x) == x.t \in {"int", "bool", "float"}
IsInt(x) == x.t \in {"int", "bool"}
IsRaise(x) == x.t = "raise"

Abs(n) == IF n < 0 THEN 0 - n ELSE n

RECURSIVE Norm(_, _)
Norm(n, d) == IF d > 1 /\ n % 2 = 0 THEN Norm(n \div 2, d \div 2) ELSE <<n, d>>

(* a number of type t with value n/d (d > 0 a power of two), or Opaque when outside the exact window *)
Mk(t, n, d) ==
  LET nd == Norm(n, d) IN
  IF Abs(nd[1]) > Bound \/ nd[2] > DBound THEN Opaque
  ELSE IF t = "float" THEN [t |-> "float", n |-> nd[1], d |-> nd[2]]
  ELSE IF nd[2] # 1 THEN Opaque
  ELSE [t |-> t, n |-> nd[1], d |-> 1]

I(n)    == [t |-> "int", n |-> n, d |-> 1]
Bo(b)   == [t |-> "bool", n |-> IF b THEN 1 ELSE 0, d |-> 1]
F(n, d) == Mk("float", n, d)

ResT(x, y) == IF x.t = "float" \/ y.t = "float" THEN "float" ELSE "int"
UnT(x)     == IF x.t = "float" THEN "float" ELSE "int"

RECURSIVE Gcd(_, _)
Gcd(a, b) == IF b = 0 THEN Abs(a) ELSE Gcd(b, a % Abs(b))

RECURSIVE IsPow2(_)
IsPow2(n) == IF n = 1 THEN TRUE ELSE IF n <= 0 \/ n % 2 # 0 THEN FALSE ELSE IsPow2(n \div 2)

RECURSIVE IPow(_, _)
IPow(b, e) == IF e = 0 THEN 1 ELSE LET r == IPow(b, e - 1) IN IF Abs(r) > Bound THEN Bound + 1 ELSE b * r

(* exact rational N/D (D # 0) as a float, when it is a small dyadic *)
Rat(t, N, D) ==
  LET s == IF D < 0 THEN 0 - 1 ELSE 1
      n == s * N
      d == s * D
      g == Gcd(n, d)
      n1 == IF g = 0 THEN 0 ELSE n \div g
      d1 == IF g = 0 THEN 1 ELSE d \div g
  IN IF Abs(N) > Bound \/ Abs(D) > Bound THEN Opaque
     ELSE IF IsPow2(d1) THEN Mk(t, n1, d1) ELSE Opaque

(* floor(N/D) for D # 0; TLC's \div floors for a positive divisor *)
FloorQ(N, D) == IF D > 0 THEN N \div D ELSE (0 - N) \div (0 - D)

(* two's complement bit operations on unbounded ints *)
RECURSIVE BAnd(_, _), BOr(_, _), BXor(_, _)
BAnd(x, y) == IF x = 0 \/ y = 0 THEN 0 ELSE IF x = 0 - 1 THEN y ELSE IF y = 0 - 1 THEN x
              ELSE 2 * BAnd(x \div 2, y \div 2) + (x % 2) * (y % 2)
BOr(x, y)  == IF x = 0 THEN y ELSE IF y = 0 THEN x ELSE IF x = 0 - 1 \/ y = 0 - 1 THEN 0 - 1
              ELSE 2 * BOr(x \div 2, y \div 2) + (IF x % 2 = 1 \/ y % 2 = 1 THEN 1 ELSE 0)
BXor(x, y) == IF x = 0 THEN y ELSE IF y = 0 THEN x
              ELSE IF x = 0 - 1 THEN 0 - y - 1 ELSE IF y = 0 - 1 THEN 0 - x - 1
              ELSE 2 * BXor(x \div 2, y \div 2) + (IF (x % 2) # (y % 2) THEN 1 ELSE 0)

Less(x, y) == x.n * y.d < y.n * x.d
Same(x, y) == x.n * y.d = y.n * x.d

BinOps == {"+", "-", "*", "@", "/", "//", "%", "**", "&", "|", "^", "<", "<=", "==", "!=", ">=", ">", ">>", "<<"}
UnOps  == {"-", "+", "~"}

(* ---- x op y on two numbers, as Python evaluates it immediately ---------------------------------- *)
NumBin(op, x, y) ==
  CASE op = "+" -> Mk(ResT(x, y), x.n * y.d + y.n * x.d, x.d * y.d)
    [] op = "-" -> Mk(ResT(x, y), x.n * y.d - y.n * x.d, x.d * y.d)
    [] op = "*" -> Mk(ResT(x, y), x.n * y.n, x.d * y.d)
    [] op = "@" -> TE
    [] op = "/" -> IF y.n = 0 THEN ZDE ELSE Rat("float", x.n * y.d, x.d * y.n)
    [] op = "//" -> IF y.n = 0 THEN ZDE ELSE Mk(ResT(x, y), FloorQ(x.n * y.d, x.d * y.n), 1)
    [] op = "%" -> IF y.n = 0 THEN ZDE
                   ELSE LET q == FloorQ(x.n * y.d, x.d * y.n)
                        IN Mk(ResT(x, y), x.n * y.d - q * y.n * x.d, x.d * y.d)
    [] op = "**" ->
         IF y.d # 1 THEN (IF x.n = 0 /\ y.n < 0 THEN ZDE ELSE Opaque)            \* fractional exponent: libm / complex
         ELSE IF y.n >= 0
              THEN IF y.n > 24 THEN Opaque
                   ELSE LET pn == IPow(x.n, y.n)  pd == IPow(x.d, y.n)
                        IN IF Abs(pn) > Bound \/ pd > Bound THEN Opaque ELSE Mk(ResT(x, y), pn, pd)
              ELSE IF x.n = 0 THEN ZDE                                         \* 0 ** -k raises, deferred or not
                   ELSE IF 0 - y.n > 24 THEN Opaque
                   ELSE LET pn == IPow(x.d, 0 - y.n)  pd == IPow(x.n, 0 - y.n)  \* (d/n)^k : always a float
                        IN IF Abs(pn) > Bound \/ Abs(pd) > Bound THEN Opaque ELSE Rat("float", pn, pd)
    [] op \in {"&", "|", "^"} ->
         IF ~(IsInt(x) /\ IsInt(y)) THEN TE
         ELSE LET r == CASE op = "&" -> BAnd(x.n, y.n) [] op = "|" -> BOr(x.n, y.n) [] op = "^" -> BXor(x.n, y.n)
              IN IF x.t = "bool" /\ y.t = "bool" THEN Bo(r = 1) ELSE I(r)
    [] op = "<<" -> IF ~(IsInt(x) /\ IsInt(y)) THEN TE ELSE IF y.n < 0 THEN VE
                    ELSE IF y.n > 18 THEN Opaque ELSE Mk("int", x.n * IPow(2, y.n), 1)
    [] op = ">>" -> IF ~(IsInt(x) /\ IsInt(y)) THEN TE ELSE IF y.n < 0 THEN VE
                    ELSE IF y.n > 24 THEN I(IF x.n < 0 THEN 0 - 1 ELSE 0) ELSE I(x.n \div IPow(2, y.n))
    [] op = "<"  -> Bo(Less(x, y))
    [] op = "<=" -> Bo(Less(x, y) \/ Same(x, y))
    [] op = ">"  -> Bo(Less(y, x))
    [] op = ">=" -> Bo(Less(y, x) \/ Same(x, y))
    [] op = "==" -> Bo(Same(x, y))
    [] op = "!=" -> Bo(~Same(x, y))

(* operands are evaluated left to right: the first exception wins; anything that is not a number is CPython's business *)
IsNaN(x) == x.t = "nan"
PyBin(op, x, y) ==
  IF IsRaise(x) THEN x ELSE IF IsRaise(y) THEN y
  ELSE IF ((IsNaN(x) /\ (IsNum(y) \/ IsNaN(y))) \/ (IsNaN(y) /\ IsNum(x))) /\ op \in {"&", "|", "^", "<<", ">>", "@"} THEN TE   \* NaN is a float
  ELSE IF ~(IsNum(x) /\ IsNum(y)) THEN Opaque
  ELSE NumBin(op, x, y)

(* the DEFERRED meaning of a binary node: identical, except the documented guard of / // % *)
DefBin(op, x, y) ==
  LET r == PyBin(op, x, y) IN
  IF op \in {"/", "//", "%"} /\ IsNum(x) /\ IsNum(y) /\ r = ZDE THEN NaN ELSE r

PyUn(op, x) ==
  IF IsRaise(x) THEN x ELSE IF ~IsNum(x) THEN Opaque
  ELSE CASE op = "-" -> Mk(UnT(x), 0 - x.n, x.d)
         [] op = "+" -> Mk(UnT(x), x.n, x.d)
         [] op = "~" -> IF IsInt(x) THEN I(0 - x.n - 1) ELSE TE

(* round half to even of N/D (D > 0) to an integer *)
RoundHE(N, D) == LET q == N \div D  r == N % D
                 IN IF 2 * r < D THEN q ELSE IF 2 * r > D THEN q + 1 ELSE IF q % 2 = 0 THEN q ELSE q + 1

RECURSIVE Log2(_)
Log2(d) == IF d <= 1 THEN 0 ELSE 1 + Log2(d \div 2)

Builtins == {"abs", "round", "divmod", "trunc", "floor", "ceil"}

(* f(x, *p): abs(x), round(x), round(x, n), divmod(x, y), math.trunc/floor/ceil(x) *)
PyBuiltin(f, x, p) ==
  IF IsRaise(x) THEN x
  ELSE IF Len(p) > 0 /\ IsRaise(p[1]) THEN p[1]
  ELSE IF ~IsNum(x) \/ (Len(p) > 0 /\ ~IsNum(p[1])) THEN Opaque
  ELSE CASE f = "abs"   -> Mk(UnT(x), Abs(x.n), x.d)
         [] f = "trunc" -> I(IF x.n >= 0 THEN x.n \div x.d ELSE 0 - ((0 - x.n) \div x.d))
         [] f = "floor" -> I(x.n \div x.d)
         [] f = "ceil"  -> I(0 - ((0 - x.n) \div x.d))
         [] f = "divmod" -> LET y == p[1] IN IF y.n = 0 THEN ZDE ELSE Tup(NumBin("//", x, y), NumBin("%", x, y))
         [] f = "round" ->
              IF Len(p) = 0 THEN I(RoundHE(x.n, x.d))                               \* round(x) is an int
              ELSE LET nd == p[1] IN
                   IF ~IsInt(nd) THEN TE                                             \* ndigits must be an integer
                   ELSE IF IsInt(x)
                        THEN IF nd.n >= 0 THEN I(x.n)                                \* int.__round__ keeps the type int
                             ELSE IF 0 - nd.n >= 7 THEN I(0)
                             ELSE LET pw == IPow(10, 0 - nd.n) IN I(pw * RoundHE(x.n, pw))
                        ELSE IF nd.n = 0 THEN Mk("float", RoundHE(x.n, x.d), 1)      \* float stays float
                             ELSE IF nd.n >= Log2(x.d) THEN x                        \* k binary digits = k decimal digits
                             ELSE Opaque

(* ---- the operand catalogue and the table for the CPython cross-check ---------------------------------- *)
Catalogue == {I(0 - 3), I(0 - 1), I(0), I(1), I(2), I(3), Bo(TRUE), Bo(FALSE), F(1, 2), F(0 - 3, 2), F(2, 1), F(0, 1)}
=============================================================================
