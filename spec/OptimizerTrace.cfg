INIT TraceInit
NEXT TraceNext
INVARIANT Consumed
